"""Obligation scheduler, verdict aggregation, replay, known findings, evidence."""
import concurrent.futures as cf
import fnmatch
import hashlib
import importlib
import json
import os
import subprocess
import sys
import time

VERIF = os.path.dirname(os.path.dirname(os.path.abspath(__file__)))
OUTDIR = os.environ.get('VF_OUT', VERIF)      # evidence/ and replays/ go here (default: /verif itself)
REPO = os.environ.get('VF_REPO', '/repo')
PY_SYM = os.environ.get('VF_PY_SYM', '/opt/veriftools/pyvenv/bin/python')
PY_REAL = os.environ.get('VF_PY_REAL', '/venv/bin/python')
JOBS = int(os.environ.get('VF_JOBS', str(os.cpu_count() or 4)))

EXIT_OK, EXIT_VIOLATION, EXIT_INCONCLUSIVE = 0, 1, 3


def _env():
    e = dict(os.environ)
    e['PYTHONPATH'] = REPO + os.pathsep + VERIF
    e['PYTHONDONTWRITEBYTECODE'] = '1'
    e['PYTHONHASHSEED'] = '0'
    e['VF_REPO'] = REPO
    return e


def run_worker(spec):
    """one obligation in one OS process; returns the worker's result dict"""
    hard = float(spec.get('cond_timeout', 120)) * 2.5 + 120
    t0 = time.time()
    try:
        p = subprocess.run([PY_SYM, '-m', 'vf.worker', json.dumps(spec)], cwd=VERIF, env=_env(),
                           stdout=subprocess.PIPE, stderr=subprocess.PIPE, timeout=hard)
    except subprocess.TimeoutExpired:
        return {'verdict': 'inconclusive', 'why': 'hard timeout %ds' % hard, 'wall_s': round(time.time() - t0, 1)}
    out = p.stdout.decode('utf-8', 'replace')
    for line in reversed(out.splitlines()):
        if line.startswith('RESULT '):
            try:
                return json.loads(line[7:])
            except ValueError:
                break
    return {'verdict': 'inconclusive', 'why': 'worker died rc=%s: %s' % (p.returncode, p.stderr.decode('utf-8', 'replace')[-800:]),
            'wall_s': round(time.time() - t0, 1)}


def run_concrete(ob, args, kwargs=None, timeout=600):
    """execute a harness concretely against the real code (real struct/time/io) under the repo's interpreter"""
    payload = {'module': ob['module'], 'func': ob['func'], 'params': ob.get('params', {}),
               'args': args, 'kwargs': kwargs or {}}
    try:
        p = subprocess.run([PY_REAL, os.path.join(VERIF, 'vf', 'replay.py'), '--inline', json.dumps(payload)],
                           cwd=VERIF, env=_env(), stdout=subprocess.PIPE, stderr=subprocess.STDOUT, timeout=timeout)
    except subprocess.TimeoutExpired:
        return {'outcome': 'timeout'}
    out = p.stdout.decode('utf-8', 'replace')
    for line in reversed(out.splitlines()):
        if line.startswith('REPLAY '):
            return json.loads(line[7:])
    return {'outcome': 'error', 'detail': out[-800:]}


def load_known():
    known, fixed = [], []
    path = os.path.join(VERIF, 'known_findings.txt')
    if not os.path.exists(path):
        return known, fixed
    for raw in open(path):
        line = raw.strip()
        if not line or line.startswith('#'):
            continue
        if line.startswith('fixed:'):
            fixed.append(line)
            continue
        if line.startswith('known:'):
            head, _, desc = line[6:].partition('::')
            ent = {'desc': desc.strip()}
            for tok in head.split(';'):
                k, _, v = tok.strip().partition('=')
                ent[k.strip()] = v.strip()
            known.append(ent)
    return known, fixed


def match_known(known, pid, ob, args, kwargs, rep=None):
    for ent in known:
        if ent.get('property') != pid:
            continue
        if not fnmatch.fnmatch(ob['name'], ent.get('obligation', '*')):
            continue
        sig = ent.get('sig')
        if sig and sig not in json.dumps(rep or {}):
            continue
        pred = ent.get('when', 'True')
        try:
            a = [eval(x, {'__builtins__': {}}) for x in args]
            if eval(pred, {'__builtins__': {}, 'len': len, 'any': any, 'all': all}, {'a': a, 'p': ob.get('params', {})}):
                return ent
        except Exception:
            continue
    return None


def write_replay(pid, ob, args, kwargs, res, rep):
    d = os.path.join(OUTDIR, 'replays', pid)
    os.makedirs(d, exist_ok=True)
    payload = {'property': pid, 'obligation': ob['name'], 'module': ob['module'], 'func': ob['func'],
               'params': ob.get('params', {}), 'args': args, 'kwargs': kwargs or {},
               'solver_message': res.get('cex_text', ''), 'replay_outcome': rep,
               'how': 'run: ./check --replay <this file>   (executes the harness on these concrete values with the real struct/time/io under /venv/bin/python)'}
    hsh = hashlib.sha1(json.dumps([ob['name'], args, kwargs], sort_keys=True).encode()).hexdigest()[:10]
    path = os.path.join(d, '%s_%s.json' % (ob['name'].replace('/', '_').replace(':', '_'), hsh))
    with open(path, 'w') as f:
        json.dump(payload, f, indent=1)
    return path


def check_property(pid, tier, seed, only=None, verbose=True):
    t0 = time.time()
    mod = importlib.import_module('vf.props.' + pid)
    obs = mod.obligations(tier)
    if only:
        obs = [o for o in obs if fnmatch.fnmatch(o['name'], only)]
    known, fixed = load_known()
    meta = getattr(mod, 'META', {})

    def log(*a):
        if verbose:
            print(*a, flush=True)

    # ---- preflight: environment-model validation (differential against the real implementation)
    pre = []
    for vname in meta.get('validate', []):
        vm = importlib.import_module('vf.validate')
        r = getattr(vm, vname)(seed)
        pre.append({'validation': vname, **r})
        log('[validate] %s: %s' % (vname, r))
        if not r.get('ok'):
            log('model validation failed -> inconclusive')
            _write_evidence(pid, tier, seed, meta, [], pre, t0, 0, note='model validation failed: %s' % vname)
            return EXIT_INCONCLUSIVE

    jobs = []
    for ob in obs:
        ob.setdefault('engine', 'chx')
        ob.setdefault('params', {})
        jobs.append((ob, False))
        if ob.get('twin', True):
            jobs.append((ob, True))

    results = {}
    log('[%s] %d obligations (%d processes incl. reachability twins), tier=%s, jobs=%d' % (pid, len(obs), len(jobs), tier, JOBS))

    def _run(job):
        ob, twin = job
        spec = {k: ob[k] for k in ('engine', 'module', 'func', 'params') if k in ob}
        spec['cond_timeout'] = ob.get('cond_timeout', 120)
        spec['path_timeout'] = ob.get('path_timeout', 30)
        if twin:
            spec['twin'] = True
            spec['cond_timeout'] = min(spec['cond_timeout'], ob.get('twin_timeout', 120))
        return job, run_worker(spec)

    # longest first
    jobs.sort(key=lambda j: -(j[0].get('cost', j[0].get('cond_timeout', 120)) if not j[1] else 1))
    with cf.ThreadPoolExecutor(max_workers=JOBS) as ex:
        for (ob, twin), res in ex.map(_run, jobs):
            results[(ob['name'], twin)] = res
            log('  %-58s %-5s %-12s paths=%-5s q=%-6s solver=%ss wall=%ss %s' % (
                ob['name'], 'twin' if twin else '', res.get('verdict'), res.get('paths', '-'), res.get('solver_calls', '-'),
                res.get('solver_s', '-'), res.get('wall_s', '-'), (res.get('why') or '')[:150]))

    # ---- concrete validation runs of the harnesses (real struct/time under the repo interpreter)
    nvalid = 0
    rows = []
    violations = []
    inconclusive = []
    known_hits = []
    for ob in obs:
        res = results[(ob['name'], False)]
        row = {'obligation': ob['name'], 'engine': ob['engine'], 'entry': ob['module'] + ':' + ob['func'],
               'bounds': ob.get('bounds', ''), 'functions_encoded': ob.get('functions', []),
               'stubs': ob.get('stubs', []), 'verdict': res.get('verdict'), 'paths': res.get('paths', 0),
               'paths_confirmed': res.get('paths_confirmed', res.get('paths', 0)),
               'solver_queries': res.get('solver_calls', 0), 'solver_s': res.get('solver_s', 0.0), 'wall_s': res.get('wall_s', 0.0)}
        if 'extra' in res:
            row['extra'] = res['extra']
        v = res.get('verdict')
        if v == 'confirmed':
            if (ob['name'], True) in results:
                tw = results[(ob['name'], True)]
                row['twin'] = tw.get('verdict')
                if tw.get('verdict') != 'refuted':
                    v = 'inconclusive'
                    row['verdict'] = 'inconclusive'
                    row['why'] = 'reachability twin not refuted (%s): vacuous or unreachable' % tw.get('verdict')
            for sample in ob.get('samples', []):
                sargs = [repr(x) for x in sample]
                rep = run_concrete(ob, sargs)
                nvalid += 1
                if rep.get('outcome') == 'violates':
                    # a concrete run of the harness on the REAL code with the real struct/time/io (and the parts only checked concretely,
                    # e.g. CRCs) fails: that is a replayed violation in its own right, whatever the solver said under the models
                    row['counterexample'] = 'declared sample %r' % (sample,)
                    row['replay'] = rep
                    ent = match_known(known, pid, ob, sargs, {}, rep)
                    path = write_replay(pid, ob, sargs, {}, {'cex_text': 'declared concrete sample (solver verdict under the models: confirmed)'}, rep)
                    if ent is not None:
                        known_hits.append((ent, ob, path))
                        row['verdict'] = 'known-finding'
                    else:
                        violations.append((ob, path, rep))
                        row['verdict'] = 'VIOLATION'
                    v = row['verdict']
                    break
                if rep.get('outcome') != 'holds':
                    v = 'inconclusive'
                    row['verdict'] = 'inconclusive'
                    row['why'] = 'harness could not be run on concrete sample %r under the real struct/time: %s' % (sample, rep)
        if v == 'refuted':
            cex = res.get('cex') or {}
            if res.get('replay'):   # py engines replay themselves and report
                rep = res['replay']
                args, kwargs = cex.get('args', []), cex.get('kwargs', {})
            elif 'args' not in cex:
                rep = {'outcome': 'error', 'detail': 'could not parse counterexample: %s' % cex.get('raw')}
                args, kwargs = [], {}
            else:
                args, kwargs = cex['args'], cex['kwargs']
                rep = run_concrete(ob, args, kwargs)
                nvalid += 1
            row['counterexample'] = cex.get('raw') or cex
            row['replay'] = rep
            if rep.get('outcome') == 'violates':
                ent = match_known(known, pid, ob, args, kwargs, rep)
                path = write_replay(pid, ob, args, kwargs, res, rep)
                if ent is not None:
                    known_hits.append((ent, ob, path))
                    row['verdict'] = 'known-finding'
                else:
                    violations.append((ob, path, rep))
                    row['verdict'] = 'VIOLATION'
            else:
                row['verdict'] = 'inconclusive'
                row['why'] = 'solver counterexample did not reproduce on the real code (model/stub mismatch): %s' % (rep,)
                v = 'inconclusive'
        if row['verdict'] == 'inconclusive':
            row.setdefault('why', res.get('why', ''))
            inconclusive.append(row)
        rows.append(row)

    for ent, ob, path in known_hits:
        print('KNOWN-FINDING: property=%s %s [obligation %s, replay %s]' % (pid, ent['desc'], ob['name'], path), flush=True)
    for ob, path, rep in violations:
        print('VIOLATION property=%s replay=%s' % (pid, path), flush=True)
        log('   obligation %s: %s' % (ob['name'], json.dumps(rep)[:400]))
    for row in inconclusive:
        log('INCONCLUSIVE %s: %s' % (row['obligation'], row.get('why', '')[:300]))

    _write_evidence(pid, tier, seed, meta, rows, pre, t0, len(violations), nvalid=nvalid)
    if violations:
        return EXIT_VIOLATION
    if inconclusive:
        return EXIT_INCONCLUSIVE
    log('[%s] all %d obligations hold within their bounds (%.0fs)' % (pid, len(obs), time.time() - t0))
    return EXIT_OK


def _write_evidence(pid, tier, seed, meta, rows, pre, t0, nviol, nvalid=0, note=''):
    paths = sum(int(r.get('paths') or 0) for r in rows)
    pconf = sum(int(r.get('paths_confirmed') or 0) for r in rows if r['verdict'] in ('confirmed', 'holds'))
    queries = sum(int(r.get('solver_queries') or 0) for r in rows)
    held = [r for r in rows if r['verdict'] in ('confirmed', 'holds')]
    fns = sorted({f for r in rows for f in r.get('functions_encoded', [])})
    ev = {
        'property_id': pid, 'tier': tier, 'seed': seed, 'level': 'model_checking',
        'coverage': {
            'states': max(paths, 1) if rows else 1,
            'transitions': max(queries, 1) if rows else 1,
            'traces_validated_against_impl': nvalid + sum(int(p.get('cases', 0)) for p in pre),
            'obligations': len(rows), 'discharged': len(held),
            'evaluations': max(paths, 1), 'distinct_nontrivial': pconf,
            'rule': 'one evaluation = one symbolic execution path of a harness over the REAL pycdlib functions (a class of inputs '
                    'sharing all branch decisions), its path condition and the negated postcondition decided by z3; '
                    'distinct_nontrivial counts paths of obligations that were exhausted (verdict confirmed/holds): each is a distinct, '
                    'feasible branch-decision class that reached the postcondition. states = paths, transitions = solver queries.',
            'exhaustive': False,
            'solver_seconds': round(sum(float(r.get('solver_s') or 0) for r in rows), 2),
            'functions_encoded': fns,
            'model_validation': pre,
            'samples': rows,
            'checker_cmd': './check %s --tier %s' % (pid, tier),
            'trusted_base': ['crosshair-tool 0.0.110 (symbolic interpreter for CPython 3.11 byte-code)', 'z3 5.1.0',
                             'environment models of DESIGN 1.4 (differentially validated at the start of each run)'],
            'explanation': 'bounded symbolic checking: each obligation is decided by z3 for ALL values inside the bound written in its '
                           '"bounds" field; nothing is claimed outside. ' + meta.get('explanation', '') + (' NOTE: ' + note if note else ''),
        },
        'assumptions': meta.get('assumptions', []),
        'wall_s': round(time.time() - t0, 1),
        'violations': nviol,
    }
    os.makedirs(os.path.join(OUTDIR, 'evidence'), exist_ok=True)
    with open(os.path.join(OUTDIR, 'evidence', pid + '.json'), 'w') as f:
        json.dump(ev, f, indent=1, default=repr)
