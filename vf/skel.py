"""Skeleton histories (construction (S) of DESIGN 1.5): fixed sequences of REAL public API calls in
which every file length is a (possibly symbolic) integer.  Names are concrete.

A configuration is a dict {il, joliet, rr, udf, xa}.
A skeleton is a function  sk(iso, L, cfg, hook)  where L is the list of lengths and hook(i) is called
after edit number i (used by C06 to insert force_consistency / queries at arbitrary points).
"""
import io
from vf import h

h.fix_env()
import pycdlib  # noqa: E402
from pycdlib import udf as udfmod, dr as drmod, pycdlibexception  # noqa: E402

LBS = 2048

if h.SYM:
    # CrossHair turns every bytearray() into a SymbolicByteArray, which io.BytesIO() rejects (TypeError that the
    # real interpreter never raises).  symlink targets are concrete here, so the real function is run natively.
    from crosshair.tracers import NoTracing as _NoTracing
    _orig_s2b = udfmod.symlink_to_bytes

    def _s2b_native(target):
        with _NoTracing():
            return _orig_s2b(target)
    udfmod.symlink_to_bytes = _s2b_native

# ---- configuration families -------------------------------------------------------------------

def cfg_of(il=3, joliet=None, rr=None, udf=False, xa=False):
    return {'il': il, 'joliet': joliet, 'rr': rr, 'udf': udf, 'xa': xa}


def quick_cfgs():
    """the 8 on/off combinations of Joliet 3 / Rock Ridge 1.09 / UDF at level 3"""
    out = []
    for k in range(8):
        out.append(cfg_of(3, 3 if k & 2 else None, '1.09' if k & 4 else None, bool(k & 1), False))
    return out


def pairwise_cfgs():
    """a pairwise covering array over il{1,2,3,4} x joliet{None,1,2,3} x rr{None,1.09,1.10,1.12} x udf x xa,
    computed greedily and deterministically at run time (level 4 forbids Joliet? no: it is accepted)"""
    import itertools
    doms = [('il', [1, 2, 3, 4]), ('joliet', [None, 1, 2, 3]), ('rr', [None, '1.09', '1.10', '1.12']),
            ('udf', [False, True]), ('xa', [False, True])]
    keys = [d[0] for d in doms]
    allc = [dict(zip(keys, v)) for v in itertools.product(*[d[1] for d in doms])]
    need = set()
    for i in range(len(doms)):
        for j in range(i + 1, len(doms)):
            for a in doms[i][1]:
                for b in doms[j][1]:
                    need.add((i, repr(a), j, repr(b)))

    def covers(c):
        s = set()
        for i in range(len(doms)):
            for j in range(i + 1, len(doms)):
                s.add((i, repr(c[keys[i]]), j, repr(c[keys[j]])))
        return s
    chosen = []
    while need:
        best = max(allc, key=lambda c: len(covers(c) & need))
        chosen.append(best)
        need -= covers(best)
    return chosen


def cfg_name(c):
    return 'il%d_j%s_rr%s_u%d_x%d' % (c['il'], c['joliet'] or 0, (c['rr'] or '0').replace('.', ''), int(c['udf']), int(c['xa']))


def new_iso(cfg, always_consistent=False):
    iso = pycdlib.PyCdlib(always_consistent=always_consistent)
    iso.new(interchange_level=cfg['il'], joliet=cfg['joliet'], rock_ridge=cfg['rr'],
            udf='2.60' if cfg['udf'] else None, xa=cfg['xa'])
    return iso


def fkw(cfg, base, d='', rrname=None):
    """keyword arguments naming one file in every namespace the configuration carries"""
    low = base.lower()
    dl = d.lower()
    return dict(iso_path='%s/%s.;1' % (d, base),
                rr_name=(rrname or low) if cfg['rr'] else None,
                joliet_path=('%s/%s' % (dl, low)) if cfg['joliet'] else None,
                udf_path=('%s/%s' % (dl, low)) if cfg['udf'] else None)


def dkw(cfg, base, d=''):
    low = base.lower()
    dl = d.lower()
    return dict(iso_path='%s/%s' % (d, base),
                rr_name=low if cfg['rr'] else None,
                joliet_path=('%s/%s' % (dl, low)) if cfg['joliet'] else None,
                udf_path=('%s/%s' % (dl, low)) if cfg['udf'] else None)


def _nohook(i):
    return None


# ---- skeletons ---------------------------------------------------------------------------------

def sk1(iso, L, cfg, hook=_nohook, fp=None):
    """add_fp a; add_directory d; add_fp b; add_fp d/c; rm_file b      (3 lengths)"""
    fp = fp or h.InFP()
    iso.add_fp(fp, L[0], **fkw(cfg, 'AAA')); hook(0)
    iso.add_directory(**dkw(cfg, 'DIR1')); hook(1)
    iso.add_fp(fp, L[1], **fkw(cfg, 'BBB')); hook(2)
    iso.add_fp(fp, L[2], **fkw(cfg, 'CCC', '/DIR1')); hook(3)
    iso.rm_file(iso_path='/BBB.;1'); hook(4)
    return {'files': {'/AAA.;1': L[0], '/DIR1/CCC.;1': L[2]}, 'dirs': ['/DIR1'], 'steps': 5}


def sk2(iso, L, cfg, hook=_nohook, fp=None):
    """SK1 prefix + hard links into ISO / Joliet / UDF, then rm_hard_link of the first ISO name, of one of two UDF names and of the Joliet link   (3 lengths)"""
    fp = fp or h.InFP()
    iso.add_fp(fp, L[0], **fkw(cfg, 'AAA')); hook(0)
    iso.add_directory(**dkw(cfg, 'DIR1')); hook(1)
    iso.add_fp(fp, L[1], **fkw(cfg, 'BBB')); hook(2)
    iso.add_hard_link(iso_old_path='/AAA.;1', iso_new_path='/DIR1/LNK.;1', rr_name='lnk' if cfg['rr'] else None); hook(3)
    n = 4
    if cfg['joliet']:
        iso.add_hard_link(iso_old_path='/BBB.;1', joliet_new_path='/dir1/jlnk'); hook(n); n += 1
    if cfg['udf']:
        iso.add_hard_link(iso_old_path='/BBB.;1', udf_new_path='/dir1/ulnk'); hook(n); n += 1
    iso.add_fp(fp, L[2], **fkw(cfg, 'CCC', '/DIR1')); hook(n); n += 1
    iso.rm_hard_link(iso_path='/AAA.;1'); hook(n); n += 1
    if cfg['udf']:
        iso.rm_hard_link(udf_path='/bbb'); hook(n); n += 1
    if cfg['joliet']:
        iso.rm_hard_link(joliet_path='/dir1/jlnk'); hook(n); n += 1
    return {'files': {'/DIR1/LNK.;1': L[0], '/BBB.;1': L[1], '/DIR1/CCC.;1': L[2]}, 'dirs': ['/DIR1'], 'steps': n}


def sk3(iso, L, cfg, hook=_nohook, fp=None, hybrid=False):
    """boot file + El Torito + EFI section + file + optional isohybrid   (3 lengths; L[0],L[1] >= 1)"""
    fp = fp or BootFP()
    iso.add_fp(fp, L[0], **fkw(cfg, 'BOOT')); hook(0)
    iso.add_fp(fp, L[1], **fkw(cfg, 'EFI')); hook(1)
    iso.add_eltorito('/BOOT.;1', bootcatfile='/BOOT.CAT;1',
                     rr_bootcatname='boot.cat' if cfg['rr'] else None,
                     joliet_bootcatfile='/boot.cat' if cfg['joliet'] else None,
                     udf_bootcatfile='/boot.cat' if cfg['udf'] else None); hook(2)
    iso.add_eltorito('/EFI.;1', efi=True); hook(3)
    iso.add_fp(fp, L[2], **fkw(cfg, 'AAA')); hook(4)
    n = 5
    if hybrid:
        iso.add_isohybrid(); hook(n); n += 1
    return {'files': {'/BOOT.;1': L[0], '/EFI.;1': L[1], '/AAA.;1': L[2]}, 'dirs': [], 'steps': n}


class BootFP(h.InFP):
    """source for boot files: the isohybrid signature check reads 4 bytes at 0x40"""
    def read(self, n=-1):
        p = self.pos
        if h.concrete(p) and h.concrete(n) and p == 0x40 and n == 4:
            self.pos += n
            return b'\xfb\xc0\x78\x70'
        return h.InFP.read(self, n)


RRLONG = 'x' * 180


def sk4(iso, L, cfg, hook=_nohook, fp=None, nlong=3):
    """Rock Ridge stress: files with 180+-byte names (continuation areas), a symlink, a 9-deep chain
    (relocation), then removals    (3 lengths; needs cfg.rr)"""
    fp = fp or h.InFP()
    n = 0
    for i in range(nlong):
        kw = fkw(cfg, 'LONG%d' % i, rrname='long%d' % i + RRLONG)
        iso.add_fp(fp, L[i % 3], **kw); hook(n); n += 1
    if cfg['rr']:
        iso.add_symlink(symlink_path='/SYM.;1', rr_symlink_name='sym', rr_path='/long0' + RRLONG,
                        joliet_path='/sym' if cfg['joliet'] else None,
                        udf_symlink_path='/sym' if cfg['udf'] else None,
                        udf_target='/long0' + RRLONG if cfg['udf'] else None); hook(n); n += 1
    path = ''
    depth = 8 if (cfg['rr'] or cfg['il'] == 4) else 7
    for i in range(depth):
        iso.add_directory(**dkw(cfg, 'D%d' % i, path)); hook(n); n += 1
        path += '/D%d' % i
    iso.add_fp(fp, L[2], **fkw(cfg, 'DEEP', path)); hook(n); n += 1
    iso.rm_file(iso_path='/LONG1.;1'); hook(n); n += 1
    files = {'/LONG0.;1': L[0], path + '/DEEP.;1': L[2]}
    if nlong > 2:
        files['/LONG2.;1'] = L[2]
    return {'files': files, 'dirs': [], 'steps': n}


def sk5(iso, L, cfg, hook=_nohook, fp=None, k=45):
    """directory growth and shrink: k files in one directory (its extent, and the UDF identifier area, cross a
    sector), k directories (path table growth), then remove half    (3 lengths cycled)"""
    fp = fp or h.InFP()
    n = 0
    iso.add_directory(**dkw(cfg, 'BIG')); hook(n); n += 1
    for i in range(k):
        iso.add_fp(fp, L[i % 3], **fkw(cfg, 'F%03d' % i, '/BIG')); hook(n); n += 1
    for i in range(0, k, 2):
        iso.rm_file(iso_path='/BIG/F%03d.;1' % i); hook(n); n += 1
    files = {}
    for i in range(1, k, 2):
        files['/BIG/F%03d.;1' % i] = L[i % 3]
    return {'files': files, 'dirs': ['/BIG'], 'steps': n}


def sk6(iso, L, cfg, hook=_nohook, fp=None):
    """multi-extent: one file > 4 GiB (needs il 3)    L[0] in (2^32, 3*2^32)"""
    fp = fp or h.InFP()
    iso.add_fp(fp, L[0], **fkw(cfg, 'HUGE')); hook(0)
    iso.add_fp(fp, L[1], **fkw(cfg, 'AAA')); hook(1)
    return {'files': {'/HUGE.;1': L[0], '/AAA.;1': L[1]}, 'dirs': [], 'steps': 2}


def sk7(iso, L, cfg, hook=_nohook, fp=None):
    """links inside one directory: add AAA, BBB; link AAA as /CCC (+ Joliet/UDF links); remove the ORIGINAL name (a removal that frees
    no space but changes which name reaches the data first); add ZZZ; remove the link to BBB's UDF/Joliet twin   (3 lengths)"""
    fp = fp or h.InFP()
    iso.add_fp(fp, L[0], **fkw(cfg, 'AAA')); hook(0)
    iso.add_fp(fp, L[1], **fkw(cfg, 'BBB')); hook(1)
    iso.add_hard_link(iso_old_path='/AAA.;1', iso_new_path='/CCC.;1', rr_name='ccc' if cfg['rr'] else None); hook(2)
    n = 3
    if cfg['joliet']:
        iso.add_hard_link(iso_old_path='/AAA.;1', joliet_new_path='/ccc'); hook(n); n += 1
    if cfg['udf']:
        iso.add_hard_link(iso_old_path='/AAA.;1', udf_new_path='/ccc'); hook(n); n += 1
    iso.rm_hard_link(iso_path='/AAA.;1'); hook(n); n += 1
    if cfg['joliet']:
        iso.rm_hard_link(joliet_path='/aaa'); hook(n); n += 1
    if cfg['udf']:
        iso.rm_hard_link(udf_path='/aaa'); hook(n); n += 1
    return {'files': {'/BBB.;1': L[1], '/CCC.;1': L[0]}, 'dirs': [], 'steps': n}


def sk8(iso, L, cfg, hook=_nohook, fp=None):
    """divergent trees (needs Joliet): ISO-only and Joliet-only files and directories, non-ASCII Joliet names, a name of 64 characters,
    a link from an ISO file into the Joliet tree, then removals on one side only   (3 lengths)"""
    fp = fp or h.InFP()
    rr = lambda n: n if cfg['rr'] else None   # noqa: E731
    iso.add_fp(fp, L[0], iso_path='/ISOONLY.;1', rr_name=rr('isoonly')); hook(0)
    iso.add_fp(fp, L[1], joliet_path='/j\u00f6li\u00e9t \u6587\u4ef6'); hook(1)
    iso.add_joliet_directory('/jdir'); hook(2)
    iso.add_joliet_directory('/jdir/\u00e9t\u00e9 \u65e5\u672c'); hook(2)
    iso.add_directory(iso_path='/IDIR', rr_name=rr('idir')); hook(3)
    iso.add_fp(fp, L[2], iso_path='/IDIR/BOTH.;1', rr_name=rr('both'), joliet_path='/jdir/' + 'n' * 64); hook(4)
    iso.add_hard_link(iso_old_path='/ISOONLY.;1', joliet_new_path='/jdir/link to iso'); hook(5)
    iso.add_fp(fp, L[0], iso_path='/TMP.;1', rr_name=rr('tmp'), joliet_path='/tmp'); hook(6)
    iso.rm_hard_link(joliet_path='/tmp'); hook(7)
    return {'files': {'/ISOONLY.;1': L[0], '/IDIR/BOTH.;1': L[2], '/TMP.;1': L[0]}, 'dirs': ['/IDIR'], 'steps': 8}


def sk9(iso, L, cfg, hook=_nohook, fp=None, k=50):
    """a directory that GROWS past one sector while it already holds a sub-directory sorting after its files, then gets another
    sub-directory AFTER it has grown (".." records must carry the parent's current length), nested two levels   (3 lengths cycled)"""
    fp = fp or h.InFP()
    n = 0
    iso.add_directory(**dkw(cfg, 'BIG')); hook(n); n += 1
    iso.add_directory(**dkw(cfg, 'ZSUB', '/BIG')); hook(n); n += 1
    iso.add_directory(**dkw(cfg, 'DEEP', '/BIG/ZSUB')); hook(n); n += 1
    for i in range(k):
        ln = L[0] if i == 0 else 10      # one file of symbolic length, the other fillers concrete (the growth is driven by record count)
        iso.add_fp(fp, ln, **fkw(cfg, 'F%03d' % i, '/BIG')); hook(n); n += 1
    iso.add_directory(**dkw(cfg, 'ZLATE', '/BIG')); hook(n); n += 1
    files = {}
    for i in range(k):
        files['/BIG/F%03d.;1' % i] = L[0] if i == 0 else 10
    return {'files': files, 'dirs': ['/BIG', '/BIG/ZSUB', '/BIG/ZSUB/DEEP', '/BIG/ZLATE'], 'steps': n}


def sk10(iso, L, cfg, hook=_nohook, fp=None):
    """nested directories: /DIR1/DIR2/DIR3 with a file at each level, a UDF symlink with a UCS-2 component at depth two, then the removal of
    the deepest file and directory (parent entries must name the right File Entry / directory record at every level)   (3 lengths)"""
    fp = fp or h.InFP()
    iso.add_directory(**dkw(cfg, 'DIR1')); hook(0)
    iso.add_directory(**dkw(cfg, 'DIR2', '/DIR1')); hook(1)
    iso.add_fp(fp, L[0], **fkw(cfg, 'AAA', '/DIR1/DIR2')); hook(2)
    iso.add_directory(**dkw(cfg, 'DIR3', '/DIR1/DIR2')); hook(3)
    iso.add_fp(fp, L[1], **fkw(cfg, 'BBB', '/DIR1/DIR2/DIR3')); hook(4)
    iso.add_fp(fp, L[2], **fkw(cfg, 'CCC', '/DIR1')); hook(5)
    n = 6
    if cfg['udf']:
        iso.add_symlink(udf_symlink_path='/dir1/dir2/sym', udf_target='../\u0434\u0430/ccc'); hook(n); n += 1
    iso.rm_file(iso_path='/DIR1/DIR2/DIR3/BBB.;1'); hook(n); n += 1
    iso.rm_directory(**dkw(cfg, 'DIR3', '/DIR1/DIR2')); hook(n); n += 1
    return {'files': {'/DIR1/DIR2/AAA.;1': L[0], '/DIR1/CCC.;1': L[2]}, 'dirs': ['/DIR1', '/DIR1/DIR2'], 'steps': n,
            'udf_symlinks': {'/dir1/dir2/sym': '../\u0434\u0430/ccc'} if cfg['udf'] else {}}


def sk11(iso, L, cfg, hook=_nohook, fp=None):
    """UDF hard links that STAY: /aaa linked as /bbb and /dir1/ddd (three identifiers for one File Entry), one of them removed again,
    a second file linked once   (3 lengths; needs cfg.udf)"""
    fp = fp or h.InFP()
    iso.add_fp(fp, L[0], **fkw(cfg, 'AAA')); hook(0)
    iso.add_directory(**dkw(cfg, 'DIR1')); hook(1)
    iso.add_hard_link(udf_old_path='/aaa', udf_new_path='/bbb'); hook(2)
    iso.add_hard_link(udf_old_path='/aaa', udf_new_path='/dir1/ddd'); hook(3)
    iso.add_fp(fp, L[1], **fkw(cfg, 'CCC', '/DIR1')); hook(4)
    iso.add_hard_link(udf_old_path='/dir1/ccc', udf_new_path='/eee'); hook(5)
    iso.rm_hard_link(udf_path='/bbb'); hook(6)
    iso.add_fp(fp, L[2], **fkw(cfg, 'FFF')); hook(7)
    return {'files': {'/AAA.;1': L[0], '/DIR1/CCC.;1': L[1], '/FFF.;1': L[2]}, 'dirs': ['/DIR1'], 'steps': 8}


def sk12(iso, L, cfg, hook=_nohook, fp=None, k=34):
    """a ROOT directory of several sectors: k one-byte files with 30-character names plus three files of symbolic length in the root, one
    removed again: every volume descriptor that describes the root (PVD, duplicate, ISO9660:1999 enhanced, Joliet) must follow its length"""
    fp = fp or h.InFP()
    for i in range(k):
        iso.add_fp(fp, 1, **fkw(cfg, 'F%029d' % i))
    hook(0)
    iso.add_fp(fp, L[0], **fkw(cfg, 'AAA')); hook(1)
    iso.add_fp(fp, L[1], **fkw(cfg, 'MMM')); hook(2)
    iso.add_fp(fp, L[2], **fkw(cfg, 'ZZZ')); hook(3)
    iso.rm_file(iso_path='/F%029d.;1' % 1); hook(4)
    files = {'/F%029d.;1' % i: 1 for i in range(k) if i != 1}
    files.update({'/AAA.;1': L[0], '/MMM.;1': L[1], '/ZZZ.;1': L[2]})
    return {'files': files, 'dirs': [], 'steps': 5}


SKELETONS = {'sk1': sk1, 'sk2': sk2, 'sk3': sk3, 'sk4': sk4, 'sk5': sk5, 'sk6': sk6, 'sk7': sk7, 'sk8': sk8, 'sk9': sk9, 'sk10': sk10, 'sk11': sk11, 'sk12': sk12}


# ---- object collection (what occupies which sectors) ----------------------------------------------

def walk_dirs(root):
    """every directory record (not dot/dotdot) reachable from root, BFS, plus root itself"""
    out = [root]
    q = [root]
    while q:
        d = q.pop(0)
        for c in d.children:
            if c.is_dir() and not c.is_dot() and not c.is_dotdot():
                out.append(c)
                q.append(c)
    return out


def collect_spans(iso):
    """[(label, lo, hi)] sector spans of every on-disc object as the REAL objects report them"""
    sp = []
    lbs = iso.logical_block_size
    for i, v in enumerate(iso.pvds):
        sp.append(('pvd%d' % i, v.extent_location(), v.extent_location() + 1))
    for i, v in enumerate(iso.brs):
        sp.append(('br%d' % i, v.extent_location(), v.extent_location() + 1))
    for i, v in enumerate(iso.svds):
        sp.append(('svd%d' % i, v.extent_location(), v.extent_location() + 1))
    for i, v in enumerate(iso.vdsts):
        sp.append(('vdst%d' % i, v.extent_location(), v.extent_location() + 1))
    if iso.version_vd is not None:
        sp.append(('version', iso.version_vd.extent_location(), iso.version_vd.extent_location() + 1))
    vds = [('pvd', iso.pvd)]
    if iso.joliet_vd is not None:
        vds.append(('joliet', iso.joliet_vd))
    for nm, vd in vds:
        n = vd.path_table_num_extents
        sp.append((nm + '.ptr_le', vd.path_table_location_le, vd.path_table_location_le + n))
        sp.append((nm + '.ptr_be', vd.path_table_location_be, vd.path_table_location_be + n))
        for d in walk_dirs(vd.root_directory_record()):
            rr = d.rock_ridge
            if rr is not None and rr.child_link_record_exists():
                continue
            sp.append((nm + '.dir:' + repr(d.file_ident), d.extent_location(), d.extent_location() + h.cdiv(d.data_length, lbs)))
    seen = set()
    for blk in iso.pvd.rr_ce_blocks:
        if blk.extent_location() < 0:
            continue      # a block object that no record references (e.g. the ER area tracked at open): nothing is stored for it
        sp.append(('ce_block', blk.extent_location(), blk.extent_location() + 1))
    rr0 = iso.pvd.root_directory_record().children[0].rock_ridge
    if rr0 is not None and rr0.dr_entries.ce_record is not None:
        sp.append(('er_sector', rr0.dr_entries.ce_record.bl_cont_area, rr0.dr_entries.ce_record.bl_cont_area + 1))
    if iso.eltorito_boot_catalog is not None:
        c = iso.eltorito_boot_catalog
        sp.append(('bootcat', c.extent_location(), c.extent_location() + 1))
    if iso._has_udf:
        for i, b in enumerate(iso.udf_beas):
            sp.append(('bea%d' % i, b.extent_location(), b.extent_location() + 1))
        sp.append(('nsr', iso.udf_nsr.extent_location(), iso.udf_nsr.extent_location() + 1))
        for i, b in enumerate(iso.udf_teas):
            sp.append(('tea%d' % i, b.extent_location(), b.extent_location() + 1))
        for nm, seq in (('main', iso.udf_main_descs), ('reserve', iso.udf_reserve_descs)):
            for kind in ('pvds', 'impl_use', 'partitions', 'logical_volumes', 'unallocated_space'):
                for i, dsc in enumerate(getattr(seq, kind)):
                    sp.append(('udf.%s.%s%d' % (nm, kind, i), dsc.extent_location(), dsc.extent_location() + 1))
            sp.append(('udf.%s.term' % nm, seq.terminator.extent_location(), seq.terminator.extent_location() + 1))
        lvi = iso.udf_logical_volume_integrity
        if lvi is not None:
            sp.append(('udf.lvi', lvi.extent_location(), lvi.extent_location() + 1))
        t = iso.udf_logical_volume_integrity_terminator
        if t is not None:
            sp.append(('udf.lvit', t.extent_location(), t.extent_location() + 1))
        for i, a in enumerate(iso.udf_anchors):
            sp.append(('udf.anchor%d' % i, a.extent_location(), a.extent_location() + 1))
        sp.append(('udf.fsd', iso.udf_file_set.extent_location(), iso.udf_file_set.extent_location() + 1))
        if iso.udf_file_set_terminator is not None:
            sp.append(('udf.fsdt', iso.udf_file_set_terminator.extent_location(), iso.udf_file_set_terminator.extent_location() + 1))
        # file entries + identifier areas
        q = [iso.udf_root]
        seen_fe = set()
        while q:
            fe = q.pop(0)
            sp.append(('udf.fe_dir', fe.extent_location(), fe.extent_location() + 1))
            tot = 0
            for d in fe.fi_descs:
                tot += udfmod.UDFFileIdentifierDescriptor.length(len(d.fi))
                if not d.is_parent() and d.file_entry is not None:
                    if d.is_dir():
                        q.append(d.file_entry)
                    else:
                        f = d.file_entry
                        key = id(f.inode) if f.inode is not None else id(f)
                        if key not in seen_fe:
                            seen_fe.add(key)
                            sp.append(('udf.fe_file', f.extent_location(), f.extent_location() + 1))
            first = fe.fi_descs[0].extent_location() if fe.fi_descs else fe.extent_location() + 1
            sp.append(('udf.fids', first, first + max(1, h.cdiv(tot, lbs))))
    for i, ino in enumerate(iso.inodes):
        n = h.cdiv(ino.get_data_length(), lbs)
        if n == 0:
            continue
        sp.append(('inode%d' % i, ino.extent_location(), ino.extent_location() + n))
    return sp


def spans_ok(iso, sp):
    """C04.a core assertion: pairwise disjoint, >= 16, <= space_size, some object ends at space_size.
    Written with & and | so that symbolic comparisons build ONE formula instead of forking paths."""
    ok = True
    size = iso.pvd.space_size
    reach = False
    for (_n, lo, hi) in sp:
        ok = ok & (lo >= 16) & (hi <= size) & (lo <= hi)
        reach = reach | (hi == size)
    ok = ok & h.disjoint([(lo, hi) for (_n, lo, hi) in sp])
    ok = ok & reach
    for v in iso.pvds + iso.svds:
        ok = ok & (v.space_size == size)
    return ok


def digest(iso):
    """every publicly observable allocation quantity, term by term (used by C06 / C14)"""
    out = [iso.pvd.space_size, iso.pvd.path_table_location_le, iso.pvd.path_table_location_be,
           iso.pvd.path_tbl_size, iso.pvd.path_table_num_extents]
    vds = [iso.pvd]
    if iso.joliet_vd is not None:
        vds.append(iso.joliet_vd)
        out.extend([iso.joliet_vd.space_size, iso.joliet_vd.path_table_location_le, iso.joliet_vd.path_table_location_be,
                    iso.joliet_vd.path_tbl_size])
    for vd in vds:
        for d in walk_dirs(vd.root_directory_record()):
            out.append(len(d.children))
            for c in d.children:
                out.append(c.file_ident)
                out.append(c.data_length)
                out.append(c.file_flags)
                if c.isdir or c.data_length != 0:
                    out.append(c.extent_location())
                out.append(c.dr_len)
                rr = c.rock_ridge
                if rr is not None:
                    ce = rr.dr_entries.ce_record
                    if ce is not None:
                        out.extend([ce.bl_cont_area, ce.offset_cont_area, ce.len_cont_area])
                    if rr.dr_entries.px_record is not None:
                        out.append(rr.dr_entries.px_record.posix_file_links)
                    if rr.dr_entries.cl_record is not None:
                        out.append(rr.dr_entries.cl_record.child_log_block_num)
                    if rr.dr_entries.pl_record is not None:
                        out.append(rr.dr_entries.pl_record.parent_log_block_num)
                if c.ptr is not None:
                    out.extend([c.ptr.extent_location, c.ptr.parent_directory_num])
    if iso.eltorito_boot_catalog is not None:
        cat = iso.eltorito_boot_catalog
        out.append(cat.extent_location())
        out.append(cat.initial_entry.load_rba)
        out.append(cat.initial_entry.sector_count)
        for s in cat.sections:
            for e in s.section_entries:
                out.extend([e.load_rba, e.sector_count])
        out.append(len(iso.brs))
    if iso._has_udf:
        out.append(iso.udf_main_descs.partitions[0].part_start_location)
        out.append(iso.udf_main_descs.partitions[0].part_length)
        out.append(iso.udf_anchors[-1].extent_location())
        lvi = iso.udf_logical_volume_integrity
        out.extend([lvi.size_tables[0] if hasattr(lvi, 'size_tables') and lvi.size_tables else 0])
        out.append(lvi.logical_volume_contents_use.unique_id)
        out.extend([lvi.logical_volume_impl_use.num_files, lvi.logical_volume_impl_use.num_dirs])
        q = [iso.udf_root]
        while q:
            fe = q.pop(0)
            out.extend([fe.extent_location(), fe.info_len, len(fe.fi_descs)])
            for d in fe.fi_descs:
                out.append(d.fi)
                out.append(d.extent_location())
                if not d.is_parent() and d.file_entry is not None:
                    out.append(d.file_entry.extent_location())
                    out.append(d.file_entry.info_len)
                    if d.is_dir():
                        q.append(d.file_entry)
    if iso.isohybrid_mbr is not None:
        m = iso.isohybrid_mbr
        out.extend([m.rba, m.geometry_heads, m.geometry_sectors])
    out.append(len(iso.inodes))
    return out
