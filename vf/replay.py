"""Concrete execution of a harness on solver-provided values against the REAL code
(real struct, real time functions unless the harness replaces them, no CrossHair).

  replay.py <file.json>           replay a stored counterexample
  replay.py --inline '<json>'     used by the runner
prints `REPLAY {"outcome": "violates"|"holds", ...}`
"""
import importlib
import json
import os
import sys
import traceback

HERE = os.path.dirname(os.path.dirname(os.path.abspath(__file__)))
sys.path.insert(0, HERE)
sys.path.insert(0, os.environ.get('VF_REPO', '/repo'))


def main():
    if sys.argv[1] == '--inline':
        payload = json.loads(sys.argv[2])
    else:
        payload = json.load(open(sys.argv[1]))
    os.environ['VF_MODE'] = 'concrete'
    os.environ['VF_TWIN'] = '0'
    os.environ['VF_PARAMS'] = json.dumps(payload.get('params', {}))
    mod = importlib.import_module(payload['module'])
    fn = getattr(mod, payload['func'])
    args = [eval(a, {'__builtins__': {}, 'bytearray': bytearray, 'float': float}) for a in payload.get('args', [])]
    kwargs = {k: eval(v, {'__builtins__': {}, 'bytearray': bytearray, 'float': float}) for k, v in payload.get('kwargs', {}).items()}
    allowed = getattr(fn, 'allowed_exceptions', ())
    try:
        r = fn(*args, **kwargs)
        out = {'outcome': 'holds' if r else 'violates', 'returned': repr(r)[:200]}
        detail = getattr(mod, 'LAST_DETAIL', None)
        if detail:
            out['detail'] = str(detail)[:1500]
    except allowed as e:
        out = {'outcome': 'holds', 'raised_allowed': type(e).__name__}
    except Exception as e:  # noqa
        tb = traceback.extract_tb(sys.exc_info()[2])
        last = tb[-1].filename if tb else ''
        kind = 'violates'
        if last.startswith(HERE) or 'Span' in str(e):
            kind = 'harness_error'   # the failure is inside /verif's own models or harness, not in pycdlib
        out = {'outcome': kind, 'raised': '%s: %s' % (type(e).__name__, e), 'trace': traceback.format_exc()[-1200:]}
    print('REPLAY ' + json.dumps(out))
    return 0 if out['outcome'] == 'holds' else 1


if __name__ == '__main__':
    sys.exit(main())
