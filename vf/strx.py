"""Engine E3: symbolic strings for the name-mangling / name-checking functions.

The REAL source of each function is re-read from /repo at every run (inspect), lightly rewritten at AST level
(method calls on literal receivers such as b';'.join(x) become helper calls, because a real bytes object cannot
join proxies) and executed on *symbolic strings* with the forking explorer of vf/bvx.py.

A symbolic string is a list of slots (guard, cls): guard is a z3 Bool "this slot is present", cls a z3 Int naming
an equivalence class of characters.  The class table is computed at run time from the running interpreter
(str.upper() of all 1 112 064 code points, membership in [A-Z0-9_], '.', ';', digits ...) by partition refinement,
so every primitive below is invariant under the quotient; each class keeps concrete representatives for replay.
Any operation outside the supported list raises Unsupported -> the obligation is INCONCLUSIVE (never mis-encoded).
"""
import ast
import inspect
import os
import textwrap

import z3

from vf import bvx
from vf.bvx import BV, SBool, W, lift


class Unsupported(Exception):
    pass


LEGAL = set('ABCDEFGHIJKLMNOPQRSTUVWXYZ0123456789_')

# ------------------------------------------------------------------------------------------------ alphabet


class Alphabet:
    """equivalence classes of characters; attribute tables as python lists indexed by class id"""
    def __init__(self, kind):
        self.kind = kind
        self.reps = []      # class id -> list of representative characters (str of length 1, or int byte)
        self.attr = {}      # name -> list (per class) of python values
        self.upper = []     # class id -> tuple of class ids (str kind)

    def n(self):
        return len(self.reps)

    def ite(self, cls_t, values, sort='bool'):
        """z3 term values[cls]: an uninterpreted table function whose graph is asserted once per solver"""
        key = (sort, tuple(bool(v) if sort == 'bool' else int(v) for v in values))
        fns = self.__dict__.setdefault('_fns', {})
        if key not in fns:
            rng = z3.BoolSort() if sort == 'bool' else (z3.IntSort() if sort == 'cls' else z3.BitVecSort(W))
            fns[key] = z3.Function('tab_%s_%d' % (self.kind, len(fns)), z3.IntSort(), rng)
        f = fns[key]
        ctx = bvx.CTX
        if (self.kind, key) not in ctx.axioms:
            ctx.axioms.add((self.kind, key))
            ax = self.__dict__.setdefault('_axioms', {})
            if key not in ax:
                lst = []
                for k, v in enumerate(key[1]):
                    val = z3.BoolVal(v) if sort == 'bool' else (z3.IntVal(v) if sort == 'cls' else z3.BitVecVal(v, W))
                    lst.append(f(z3.IntVal(k)) == val)
                ax[key] = z3.And(lst)
            ctx.solver.add(ax[key])
        return f(cls_t)


_ALPHA = {}


def _sig0(ch):
    return (ch == '.', ch == ';', ch == '/', ch in LEGAL, ch if ch in '0123456789' else '', ch == '_',
            ch in ' \t\n\r\x0b\x0c', ch if ch in '+-' else '')


def str_alphabet():
    """quotient of all Unicode scalar values, computed by partition refinement: two characters are equivalent iff they
    agree on sig0, UTF-8 length, upper-stability, and their upper() expansions are position-wise equivalent"""
    if 'str' in _ALPHA:
        return _ALPHA['str']
    chars = [chr(cp) for cp in range(0x110000) if not 0xD800 <= cp <= 0xDFFF]
    ups = {c: c.upper() for c in chars}
    cls = {}
    sig_index = {}
    for c in chars:
        u = ups[c]
        sig = (_sig0(c), len(c.encode('utf-8')), u == c, len(u))
        cls[c] = sig_index.setdefault(sig, len(sig_index))
    while True:
        sig_index2 = {}
        cls2 = {}
        for c in chars:
            sig = (cls[c], tuple(cls[x] for x in ups[c]))
            cls2[c] = sig_index2.setdefault(sig, len(sig_index2))
        stable = len(sig_index2) == len(sig_index)
        cls, sig_index = cls2, sig_index2
        if stable:
            break
    n = len(sig_index)
    a = Alphabet('str')
    a.reps = [[] for _ in range(n)]
    a.size = [0] * n
    for c in chars:
        k = cls[c]
        a.size[k] += 1
        if len(a.reps[k]) < 3:
            a.reps[k].append(c)
    first = [r[0] for r in a.reps]
    a.attr['is_dot'] = [c == '.' for c in first]
    a.attr['is_semi'] = [c == ';' for c in first]
    a.attr['is_slash'] = [c == '/' for c in first]
    a.attr['legal'] = [c in LEGAL for c in first]
    a.attr['digit'] = [int(c) if c in '0123456789' else -1 for c in first]
    a.attr['utf8len'] = [len(c.encode('utf-8')) for c in first]
    a.attr['explen'] = [len(ups[c]) for c in first]
    a.attr['stable'] = [ups[c] == c for c in first]
    a.upper = [tuple(cls[x] for x in ups[c]) for c in first]
    a.cls_of_char = lambda ch: cls[ch]
    _ALPHA['str'] = a
    return a


def bytes_alphabet():
    """bytes 0..255 individually classified by what the checking functions can observe"""
    if 'bytes' in _ALPHA:
        return _ALPHA['bytes']
    a = Alphabet('bytes')
    groups = {}
    for b in range(256):
        ch = chr(b)
        digit = ch if ch in '0123456789' else ''
        sig = (ch == '.', ch == ';', ch == '/', ch in LEGAL, digit, ch == '_', ch in ' \t\n\r\x0b\x0c', ch in '+-', b)
        # keep letters together, other bytes together: drop the byte value for the big groups
        if ch in 'ABCDEFGHIJKLMNOPQRSTUVWXYZ':
            sig = sig[:-1] + ('upper',)
        elif not (sig[0] or sig[1] or sig[2] or sig[3] or sig[6] or sig[7]):
            sig = sig[:-1] + ('other',)
        elif sig[6]:
            sig = sig[:-1] + ('space',)
        groups.setdefault(sig, []).append(b)
    sigs = sorted(groups, key=repr)
    a.reps = [groups[s][:3] for s in sigs]
    a.attr['is_dot'] = [s[0] for s in sigs]
    a.attr['is_semi'] = [s[1] for s in sigs]
    a.attr['is_slash'] = [s[2] for s in sigs]
    a.attr['legal'] = [s[3] for s in sigs]
    a.attr['digit'] = [int(s[4]) if s[4] != '' else -1 for s in sigs]
    a.attr['underscore'] = [s[5] for s in sigs]
    a.attr['space'] = [s[6] for s in sigs]
    a.attr['sign'] = [s[7] for s in sigs]
    index = {}
    for i, s in enumerate(sigs):
        for b in groups[s]:
            index[b] = i
    a.cls_of_char = lambda b: index[b]
    _ALPHA['bytes'] = a
    return a


# ------------------------------------------------------------------------------------------------ symbolic string

class IV:
    """integer proxy over z3 Int (lengths, positions, counts): mathematical integers, no width"""
    def __init__(self, t):
        self.t = t

    @staticmethod
    def of(x):
        if isinstance(x, IV):
            return x.t
        if isinstance(x, BV):
            return z3.BV2Int(x.t)
        if isinstance(x, bool):
            x = int(x)
        if isinstance(x, int):
            return z3.IntVal(x)
        raise Unsupported('IV.of(%r)' % (type(x),))

    def __add__(s, o):
        return IV(s.t + IV.of(o))
    __radd__ = __add__

    def __sub__(s, o):
        return IV(s.t - IV.of(o))

    def __rsub__(s, o):
        return IV(IV.of(o) - s.t)

    def __mul__(s, o):
        if not isinstance(o, int):
            raise Unsupported('non-linear')
        return IV(s.t * o)
    __rmul__ = __mul__

    def __neg__(s):
        return IV(-s.t)

    def __eq__(s, o):
        return SBool(s.t == IV.of(o))

    def __ne__(s, o):
        return SBool(s.t != IV.of(o))

    def __lt__(s, o):
        return SBool(s.t < IV.of(o))

    def __le__(s, o):
        return SBool(s.t <= IV.of(o))

    def __gt__(s, o):
        return SBool(s.t > IV.of(o))

    def __ge__(s, o):
        return SBool(s.t >= IV.of(o))

    def __bool__(s):
        return bool(SBool(s.t != 0))

    def __hash__(s):
        return id(s)

    def __index__(s):
        raise Unsupported('symbolic integer used as an index')


def _bvint(x):
    return IV.of(x)


def _one(g):
    return z3.If(g, z3.IntVal(1), z3.IntVal(0))


class Sym:
    """symbolic str / bytes (kind) = list of (guard, cls)"""
    def __init__(self, slots, kind, pos=None, length=None):
        self.slots = list(slots)
        self.kind = kind
        self.alpha = str_alphabet() if kind == 'str' else bytes_alphabet()
        # optional explicit position terms (position of slot i among PRESENT slots, valid when the slot is present) and
        # length term: linear in the per-character expansion lengths instead of sums of if-then-else over guards
        self.pos = pos
        self.length = length

    # -- construction
    @staticmethod
    def fresh(n, kind, name='s'):
        a = str_alphabet() if kind == 'str' else bytes_alphabet()
        slots = []
        for i in range(n):
            c = z3.Int('%s_c%d' % (name, i))
            bvx.CTX.solver.add(z3.And(c >= 0, c < a.n()))
            slots.append((z3.BoolVal(True), c, (i, z3.BoolVal(True))))
        return Sym(slots, kind, pos=[z3.IntVal(i) for i in range(n)], length=z3.IntVal(n))

    def lit(self, v):
        """literal str/bytes -> Sym of the same kind"""
        if isinstance(v, Sym):
            return v
        if self.kind == 'str' and isinstance(v, str):
            return Sym([(z3.BoolVal(True), z3.IntVal(self.alpha.cls_of_char(ch)), None) for ch in v], 'str', pos=[z3.IntVal(i) for i in range(len(v))], length=z3.IntVal(len(v)))
        if self.kind == 'bytes' and isinstance(v, (bytes, bytearray)):
            return Sym([(z3.BoolVal(True), z3.IntVal(self.alpha.cls_of_char(b)), None) for b in v], 'bytes', pos=[z3.IntVal(i) for i in range(len(v))], length=z3.IntVal(len(v)))
        raise Unsupported('literal %r against %s' % (v, self.kind))

    # -- length / truth
    def _len_t(self):
        if self.length is not None:
            return self.length
        t = z3.IntVal(0)
        for g, _c, _p in self.slots:
            t = t + _one(g)
        return t

    def __len__(self):
        raise Unsupported('len() must return int: use vf_len')

    def vf_len(self):
        return IV(self._len_t())

    def __bool__(self):
        return bool(SBool(z3.Or([g for g, _c, _p in self.slots]) if self.slots else z3.BoolVal(False)))

    # -- positions
    def _pos(self):
        if self.pos is not None:
            return self.pos
        out = []
        t = z3.IntVal(0)
        for g, _c, _p in self.slots:
            out.append(t)
            t = t + _one(g)
        return out

    def __getitem__(self, key):
        if isinstance(key, slice):
            if key.step is not None:
                raise Unsupported('slice step')
            pos = self._pos()
            slots = []
            for (g, c, pv), p in zip(self.slots, pos):
                conds = [g]
                if key.start is not None:
                    if isinstance(key.start, int) and key.start < 0:
                        raise Unsupported('negative slice start')
                    conds.append(p >= _bvint(key.start))
                if key.stop is not None:
                    if isinstance(key.stop, int) and key.stop < 0:
                        raise Unsupported('negative slice stop')
                    st = _bvint(key.stop)
                    # a symbolic stop may be "negative" (e.g. len - k - 1 < 0): Python then counts from the end.
                    # The functions under analysis only produce stops >= 0; assert it as a side condition.
                    bvx.CTX.side.append(st >= 0)
                    conds.append(p < st)
                slots.append((z3.And(conds), c, pv))
            if key.start is None and key.stop is not None and self.pos is not None:
                st = _bvint(key.stop)
                ln = self._len_t()
                return Sym(slots, self.kind, pos=self.pos, length=z3.If(ln < st, ln, st))
            return Sym(slots, self.kind)
        raise Unsupported('indexing a symbolic string')

    # -- comparison with literals / other Sym (sequence equality over present slots)
    def _eq_t(self, other):
        o = self.lit(other)
        # equal iff same length and, for every pair of slots with equal position, same class
        conds = [self._len_t() == o._len_t()]
        pa, pb = self._pos(), o._pos()
        for (g1, c1, _p1), p1 in zip(self.slots, pa):
            for (g2, c2, _p2), p2 in zip(o.slots, pb):
                conds.append(z3.Implies(z3.And(g1, g2, p1 == p2), self._same_char(c1, c2)))
        return z3.And(conds)

    def _same_char(self, c1, c2):
        # two slots denote the same character only if classes are equal AND the class is a singleton for that purpose:
        # classes group several characters, so class equality does not imply character equality.  Equality is therefore only
        # supported against LITERALS whose class is a singleton ('.', ';', digits, '_', '/').
        return c1 == c2

    def __eq__(self, other):
        if isinstance(other, (str, bytes)):
            a = self.alpha
            for ch in other:
                k = a.cls_of_char(ch)
                if len(_members(a, k)) != 1:
                    raise Unsupported('equality with literal %r whose characters are not singleton classes' % (other,))
            return SBool(self._eq_t(other))
        raise Unsupported('equality between symbolic strings')

    def __ne__(self, other):
        return SBool(z3.Not(self.__eq__(other).t))

    def __hash__(self):
        return id(self)

    def __contains__(self, item):
        if isinstance(item, (str, bytes)) and len(item) == 1:
            k = self.alpha.cls_of_char(item[0])
            if len(_members(self.alpha, k)) != 1:
                raise Unsupported('membership of non-singleton-class literal')
            return bool(SBool(z3.Or([z3.And(g, c == k) for g, c, _p in self.slots]) if self.slots else z3.BoolVal(False)))
        raise Unsupported('__contains__(%r)' % (item,))

    def __add__(self, other):
        return _concat(self, self.lit(other))

    def __radd__(self, other):
        return _concat(self.lit(other), self)

    def __iter__(self):
        """iterate over PRESENT slots: forks on the presence of each slot (sound for any loop body)"""
        for g, c, _p in self.slots:
            if bool(SBool(g)):
                yield SymChar(c, self)

    # -- str methods
    def upper(self):
        if self.kind != 'str':
            raise Unsupported('upper() on bytes')
        a = self.alpha
        mx = max(len(u) for u in a.upper)
        slots = []
        pos = []
        stab = a.attr['stable']
        explen = a.attr['explen']
        base = z3.IntVal(0)
        for g, c, pv in self.slots:
            e = a.ite(c, explen, 'cls')
            for k in range(mx):
                tgt = [u[k] if len(u) > k else 0 for u in a.upper]
                t = a.ite(c, tgt, 'cls')
                npv = (pv[0], z3.And(pv[1], a.ite(c, stab))) if (pv is not None and k == 0) else None
                slots.append((z3.And(g, e > k) if k else g, t, npv))
                pos.append(base + k)
            base = base + (e if z3.is_true(g) else z3.If(g, e, 0))
        return Sym(slots, 'str', pos=pos, length=base)

    def replace(self, old, new, count=-1):
        if count != -1 or len(old) != 1 or len(new) != 1:
            raise Unsupported('replace(%r, %r, %r)' % (old, new, count))
        a = self.alpha
        ko, kn = a.cls_of_char(old[0]), a.cls_of_char(new[0])
        if len(_members(a, ko)) != 1:
            raise Unsupported('replace of a non-singleton class')
        slots = []
        for g, c, pv in self.slots:
            hit = c == ko
            npv = (pv[0], z3.And(pv[1], z3.Not(hit))) if pv is not None else None
            slots.append((g, z3.If(hit, z3.IntVal(kn), c), npv))
        return Sym(slots, self.kind, pos=self.pos, length=self.length)

    def isdigit(self):
        a = self.alpha
        dig = [d >= 0 for d in a.attr['digit']]
        allok = z3.And([z3.Implies(g, a.ite(c, dig)) for g, c, _p in self.slots]) if self.slots else z3.BoolVal(True)
        return bool(SBool(z3.And(allok, self._len_t() >= 1)))

    def split(self, sep=None, maxsplit=-1):
        if maxsplit != -1 or sep is None or len(sep) != 1:
            raise Unsupported('split(%r, %r)' % (sep, maxsplit))
        k = self.alpha.cls_of_char(sep[0])
        if len(_members(self.alpha, k)) != 1:
            raise Unsupported('split on non-singleton class')
        return SplitView(self, k, 0)

    def encode(self, enc='utf-8'):
        raise Unsupported('encode')

    def decode(self, enc='utf-8'):
        raise Unsupported('decode')


def _concat(x, y):
    if x.pos is not None and y.pos is not None:
        lx = x._len_t()
        return Sym(x.slots + y.slots, x.kind, pos=list(x.pos) + [lx + p for p in y.pos], length=lx + y._len_t())
    return Sym(x.slots + y.slots, x.kind)


def _members(a, k):
    """how many characters the class stands for (1 = the literal is determined by its class)"""
    if a.kind == 'bytes':
        return [b for b in range(256) if a.cls_of_char(b) == k]
    return a.reps[k] if a.size[k] > 1 else a.reps[k][:1]


class SymChar:
    def __init__(self, c, owner):
        self.c = c
        self.owner = owner


class CharSet:
    """stand-in for a set of byte values / characters tested with `in` (e.g. _allowed_d1_characters)"""
    def __init__(self, real):
        self.real = set(real)

    def class_values(self, a):
        vals = []
        for k in range(a.n()):
            mem = _members(a, k) if a.kind == 'bytes' else a.reps[k]
            ins = [(m in self.real) for m in mem]
            if any(ins) and not all(ins):
                raise Unsupported('set membership splits an alphabet class')
            vals.append(all(ins))
        return vals

    def __contains__(self, ch):
        if isinstance(ch, SymChar):
            a = ch.owner.alpha
            return bool(SBool(a.ite(ch.c, self.class_values(a))))
        return ch in self.real


class SplitView:
    """lazy result of s.split(sep): only the operations the analysed functions use"""
    def __init__(self, s, sepcls, dropped_last):
        self.s = s
        self.k = sepcls
        self.dropped = dropped_last   # number of trailing parts removed by pop()/[:-1]  (0 or 1)

    def _issep(self, i):
        cache = self.__dict__.setdefault('_sepcache', {})
        if i not in cache:
            g, c, _p = self.s.slots[i]
            cache[i] = z3.And(g, c == self.k)
        return cache[i]

    def _nsep_t(self):
        t = z3.IntVal(0)
        for i in range(len(self.s.slots)):
            t = t + _one(self._issep(i))
        return t

    def vf_len(self):
        return IV(self._nsep_t() + 1 - self.dropped)

    def __len__(self):
        raise Unsupported('len() must return int: use vf_len')

    def _last(self):
        n = len(self.s.slots)
        slots = []
        for i, (g, c, pv) in enumerate(self.s.slots):
            later = [self._issep(j) for j in range(i, n)]
            slots.append((z3.And(g, z3.Not(z3.Or(later))), c, pv))
        return Sym(slots, self.s.kind)

    def _before_last_sep(self):
        n = len(self.s.slots)
        slots = []
        for i, (g, c, pv) in enumerate(self.s.slots):
            later = [self._issep(j) for j in range(i + 1, n)]
            slots.append((z3.And(g, z3.Or(later) if later else z3.BoolVal(False)), c, pv))
        return Sym(slots, self.s.kind)

    def _first(self):
        slots = []
        for i, (g, c, pv) in enumerate(self.s.slots):
            earlier = [self._issep(j) for j in range(0, i + 1)]
            slots.append((z3.And(g, z3.Not(z3.Or(earlier))), c, pv))
        return Sym(slots, self.s.kind)

    def __getitem__(self, key):
        if self.dropped:
            raise Unsupported('indexing a popped split view')
        if key == -1:
            return self._last()
        if key == 0:
            return self._first()
        if isinstance(key, slice) and key.start is None and key.stop == -1 and key.step is None:
            return SplitView(self.s, self.k, 1)
        raise Unsupported('split()[%r]' % (key,))

    def pop(self):
        if self.dropped:
            raise Unsupported('second pop()')
        last = self._last()
        self.dropped = 1
        return last

    def vf_join(self, sep):
        """sep.join(view) for the SAME separator the view was split on"""
        if self.s.alpha.cls_of_char(sep[0]) != self.k or len(sep) != 1:
            raise Unsupported('join with a different separator')
        if self.dropped:
            # all parts but the last, re-joined: the characters strictly before the last separator.
            # If there is no separator at all the view is empty -> '' (every guard false): same formula.
            return self._before_last_sep()
        return self.s


def identity_t(out, n_in, inp=None):
    """z3 Bool: `out` is, character for character, the fresh input string of n_in (all present) slots.
    A slot carries provenance (index of the input slot it is an unchanged copy of); a literal slot (no provenance)
    matches only if its class is a singleton and the input slot at that position has the same class."""
    conds = [out._len_t() == n_in]
    a = out.alpha
    for (g, c, pv), p in zip(out.slots, out._pos()):
        if pv is None:
            ok = z3.BoolVal(False)
            if inp is not None and z3.is_int_value(c) and a.size[c.as_long()] == 1:
                ok = z3.Or([z3.And(p == i, ci == c) for i, (_gi, ci, _pi) in enumerate(inp.slots)]) if inp.slots else z3.BoolVal(False)
            conds.append(z3.Implies(g, ok))
        else:
            conds.append(z3.Implies(g, z3.And(pv[1], p == pv[0])))
    return z3.And(conds)


def to_bytes_kind(s):
    """str-kind symbolic string -> bytes-kind (UTF-8 encoding) for classes whose members are single-byte ASCII and fall
    into ONE bytes class; other classes raise Unsupported (multi-byte encodings are outside the slot model)"""
    if not isinstance(s, Sym):
        return s.encode('utf-8')
    sa, ba = str_alphabet(), bytes_alphabet()
    table = []
    ok = []
    for k in range(sa.n()):
        if sa.attr['utf8len'][k] != 1:
            table.append(0)
            ok.append(False)
            continue
        first = sa.reps[k][0]
        # all members of an ASCII class: check the whole class maps into one bytes class
        members = [chr(b) for b in range(128) if sa.cls_of_char(chr(b)) == k]
        bc = {ba.cls_of_char(ord(m)) for m in members}
        if len(bc) != 1:
            table.append(0)
            ok.append(False)
        else:
            table.append(bc.pop())
            ok.append(True)
    slots = []
    for g, c, pv in s.slots:
        bvx.CTX.side.append(z3.Implies(g, sa.ite(c, ok)))
        t = sa.ite(c, table, 'cls')
        slots.append((g, t, None))
    return Sym(slots, 'bytes')


# ------------------------------------------------------------------------------------------------ helpers injected into namespaces

def vf_len(x):
    if isinstance(x, (Sym, SplitView)):
        return x.vf_len()
    return len(x)


def vf_any_not_in(it, theset):
    if isinstance(it, Sym) and isinstance(theset, CharSet):
        a = it.alpha
        vals = theset.class_values(a)
        terms = [z3.And(g, z3.Not(a.ite(c, vals))) for g, c, _p in it.slots]
        return bool(SBool(z3.Or(terms) if terms else z3.BoolVal(False)))
    for x in it:
        if x not in theset:
            return True
    return False


def vf_join(sep, x):
    if isinstance(x, SplitView):
        return x.vf_join(sep)
    if isinstance(x, (list, tuple)) and any(isinstance(e, Sym) for e in x):
        out = None
        for e in x:
            if out is None:
                out = e if isinstance(e, Sym) else None
                if out is None:
                    first_lit = e
                    out = ('lit', first_lit)
                continue
            if isinstance(out, tuple):
                out = e.lit(out[1]) + sep + e if isinstance(e, Sym) else ('lit', out[1] + sep + e)
            else:
                out = out + sep + e
        return out
    return sep.join(x)


class VfRe:
    """re.sub / re.subn for the ONE pattern family the mangling code uses: a single negated/positive character class {1}"""
    def __init__(self, real_re):
        self.real = real_re

    def _classify(self, pattern, s):
        a = s.alpha
        vals = []
        rx = self.real.compile(pattern)
        for k in range(a.n()):
            ms = [bool(rx.fullmatch(ch)) for ch in a.reps[k]]
            if any(ms) and not all(ms):
                raise Unsupported('regex %r splits an alphabet class' % pattern)
            vals.append(all(ms))
        # the pattern must match exactly one character at a time (so that sub is a per-slot map)
        if rx.fullmatch('') or rx.fullmatch('AA') or rx.fullmatch('!!') or rx.fullmatch('A!'):
            raise Unsupported('regex %r is not a single-character pattern' % pattern)
        return vals

    def sub(self, pattern, repl, s, count=0):
        return self.subn(pattern, repl, s, count)[0]

    def subn(self, pattern, repl, s, count=0):
        if not isinstance(s, Sym):
            return self.real.subn(pattern, repl, s, count)
        if count != 0 or not isinstance(repl, str) or len(repl) != 1:
            raise Unsupported('re.subn arguments')
        vals = self._classify(pattern, s)
        a = s.alpha
        rk = a.cls_of_char(repl)
        slots = []
        n = z3.IntVal(0)
        for g, c, pv in s.slots:
            m = a.ite(c, vals)
            npv = (pv[0], z3.And(pv[1], z3.Not(m))) if pv is not None else None
            slots.append((g, z3.If(m, z3.IntVal(rk), c), npv))
            n = n + _one(z3.And(g, m))
        return Sym(slots, s.kind, pos=s.pos, length=s.length), IV(n)

    def __getattr__(self, name):
        return getattr(self.real, name)


def vf_int(x):
    """int(bytes/str) on a symbolic string: exact model of CPython's grammar restricted to what the alphabet can express:
    optional surrounding whitespace, optional sign, digits with single underscores between digits; otherwise ValueError.
    Forks on the (bounded) length and on the category of every present character."""
    if not isinstance(x, Sym):
        return int(x)
    a = x.alpha
    if 'space' not in a.attr:
        raise Unsupported('int() on str kind')
    cats = []
    for ch in x:      # forks on presence
        c = ch.c
        if bool(SBool(a.ite(c, [d >= 0 for d in a.attr['digit']]))):
            cats.append(('d', a.ite(c, [max(d, 0) for d in a.attr['digit']], 'cls')))
        elif bool(SBool(a.ite(c, a.attr['underscore']))):
            cats.append(('_', None))
        elif bool(SBool(a.ite(c, a.attr['space']))):
            cats.append(('s', None))
        elif bool(SBool(a.ite(c, a.attr['sign']))):
            cats.append(('+', c))
        else:
            cats.append(('x', None))
    # strip whitespace
    while cats and cats[0][0] == 's':
        cats.pop(0)
    while cats and cats[-1][0] == 's':
        cats.pop()
    neg = None
    if cats and cats[0][0] == '+':
        neg = cats.pop(0)[1]
    if not cats or cats[0][0] != 'd' or cats[-1][0] != 'd':
        raise ValueError('invalid literal for int()')
    val = z3.IntVal(0)
    prev = None
    for kind, d in cats:
        if kind == 'd':
            val = val * 10 + d
        elif kind == '_' and prev == 'd':
            pass
        else:
            raise ValueError('invalid literal for int()')
        prev = kind
    if neg is not None:
        minus = a.cls_of_char(ord('-'))
        if bool(SBool(neg == minus)):
            return IV(-val)
    return IV(val)


# ------------------------------------------------------------------------------------------------ source loading

class _Rewrite(ast.NodeTransformer):
    """LITERAL.join(x) -> __vf_join(LITERAL, x);  len(x) -> __vf_len(x);
    `for X in IT: if X not in SET: raise E`  ->  `if __vf_any_not_in(IT, SET): raise E`  (same meaning for every iterable;
    lets a symbolic string answer with ONE existential query instead of forking on every slot)"""
    def visit_For(self, node):
        self.generic_visit(node)
        if (isinstance(node.target, ast.Name) and not node.orelse and len(node.body) == 1 and isinstance(node.body[0], ast.If)):
            iff = node.body[0]
            t = iff.test
            if (not iff.orelse and len(iff.body) == 1 and isinstance(iff.body[0], ast.Raise) and isinstance(t, ast.Compare)
                    and len(t.ops) == 1 and isinstance(t.ops[0], ast.NotIn) and isinstance(t.left, ast.Name)
                    and t.left.id == node.target.id and isinstance(t.comparators[0], ast.Name)):
                call = ast.Call(func=ast.Name(id='__vf_any_not_in', ctx=ast.Load()), args=[node.iter, t.comparators[0]], keywords=[])
                return ast.copy_location(ast.If(test=call, body=iff.body, orelse=[]), node)
        return node

    def visit_Call(self, node):
        self.generic_visit(node)
        f = node.func
        if isinstance(f, ast.Attribute) and f.attr == 'join' and isinstance(f.value, ast.Constant) and len(node.args) == 1:
            return ast.copy_location(ast.Call(func=ast.Name(id='__vf_join', ctx=ast.Load()), args=[f.value, node.args[0]], keywords=[]), node)
        if isinstance(f, ast.Name) and f.id == 'len' and len(node.args) == 1:
            return ast.copy_location(ast.Call(func=ast.Name(id='__vf_len', ctx=ast.Load()), args=node.args, keywords=[]), node)
        return node


def load_functions(module, names, extra=None, source_path=None):
    """re-read the CURRENT source of the named top-level functions, rewrite, and exec them in a namespace that starts as a
    copy of the module globals with the proxies' helpers injected; functions see EACH OTHER's rewritten versions."""
    import re as real_re
    ns = dict(module.__dict__) if module is not None else {}
    ns['__vf_join'] = vf_join
    ns['__vf_len'] = vf_len
    ns['__vf_any_not_in'] = vf_any_not_in
    ns['re'] = VfRe(real_re)
    ns['int'] = vf_int
    ns['bytearray'] = lambda x: x
    if extra:
        ns.update(extra)
    if module is not None:
        src = inspect.getsource(module)
    else:
        src = open(source_path).read()
    tree = ast.parse(src)
    keep = [n for n in tree.body if isinstance(n, ast.FunctionDef) and n.name in names]
    missing = set(names) - {n.name for n in keep}
    if missing:
        raise Unsupported('functions not found in source: %s' % sorted(missing))
    new = ast.Module(body=[_Rewrite().visit(n) for n in keep], type_ignores=[])
    ast.fix_missing_locations(new)
    exec(compile(new, '<vf-strx:%s>' % (module.__name__ if module else source_path), 'exec'), ns)
    return ns


def concretize(model, sym_name, n, kind, pick=0):
    """model -> concrete str/bytes using class representatives"""
    a = str_alphabet() if kind == 'str' else bytes_alphabet()
    out = []
    for i in range(n):
        k = model.eval(z3.Int('%s_c%d' % (sym_name, i)), True).as_long()
        reps = a.reps[k]
        out.append(reps[pick % len(reps)])
    return ''.join(out) if kind == 'str' else bytes(out)
