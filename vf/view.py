"""API views of a PyCdlib object: what a user sees through walk / get_record in every namespace."""
from vf import h


def namespaces(iso):
    ns = ['iso_path']
    if iso.rock_ridge:
        ns.append('rr_path')
    if iso.joliet_vd is not None:
        ns.append('joliet_path')
    if iso._has_udf:
        ns.append('udf_path')
    return ns


def view(iso):
    """[(namespace, path, kind, length, extent-or-None, hidden?)] sorted by (namespace, path); lengths/extents may be symbolic"""
    out = []
    for ns in namespaces(iso):
        for dirname, dirlist, filelist in iso.walk(**{ns: '/'}):
            for d in dirlist:
                p = (dirname.rstrip('/') + '/' + d)
                out.append((ns, p, 'dir', None, None))
            for f in filelist:
                p = (dirname.rstrip('/') + '/' + f)
                rec = iso.get_record(**{ns: p})
                ln = rec.get_data_length()
                kind = 'file'
                if hasattr(rec, 'is_symlink') and rec.is_symlink():
                    kind = 'symlink'
                elif getattr(rec, 'rock_ridge', None) is not None and rec.rock_ridge.is_symlink():
                    kind = 'symlink'
                ino = rec.inode
                out.append((ns, p, kind, ln, ino))
    out.sort(key=lambda e: (e[0], e[1]))
    return out


def same_view(va, vb, extents=True):
    """term-by-term equality of two views (names/kinds concrete; lengths and data extents possibly symbolic).
    The data extent is compared only for non-empty files (nothing is stored for an empty file)."""
    if [(e[0], e[1], e[2]) for e in va] != [(e[0], e[1], e[2]) for e in vb]:
        return False
    ok = True
    for a, b in zip(va, vb):
        if a[2] == 'dir':
            continue
        ok = ok & (a[3] == b[3])
        if extents and a[4] is not None and b[4] is not None:
            ea = a[4].extent_location() if _nonempty(a[3]) else 0
            eb = b[4].extent_location() if _nonempty(b[3]) else 0
            ok = ok & (ea == eb)
    return ok


def _nonempty(n):
    return bool(n != 0)
