"""./check <PROPERTY> [--tier quick|thorough] [--only GLOB]   |   ./check --replay <file>"""
import argparse
import os
import subprocess
import sys

HERE = os.path.dirname(os.path.dirname(os.path.abspath(__file__)))
sys.path.insert(0, HERE)


def main():
    ap = argparse.ArgumentParser()
    ap.add_argument('prop', nargs='?')
    ap.add_argument('--tier', default=os.environ.get('VERIF_TIER', 'quick'))
    ap.add_argument('--only', default=None)
    ap.add_argument('--replay', default=None)
    ap.add_argument('--list', action='store_true')
    a = ap.parse_args()
    from vf import runner
    if a.replay:
        return subprocess.call([runner.PY_REAL, os.path.join(HERE, 'vf', 'replay.py'), a.replay], env=runner._env(), cwd=HERE)
    seed = int(os.environ.get('VERIF_SEED', '0') or 0)
    os.environ['VF_MODE'] = 'plan'
    if a.list:
        import importlib
        mod = importlib.import_module('vf.props.' + a.prop)
        for ob in mod.obligations(a.tier):
            print(ob['name'], '|', ob.get('bounds', ''))
        return 0
    return runner.check_property(a.prop, a.tier, seed, only=a.only)


if __name__ == '__main__':
    sys.exit(main())
