"""Independent ECMA-119 reference decoder (no pycdlib import).  Works on an image given as a function rd(pos, n) -> bytes whose
items may be symbolic; all numbers are decoded by plain byte arithmetic and BOTH byte orders are compared."""


def le(b, o, n):
    v = 0
    for i in range(n):
        v = v + b[o + i] * (256 ** i)
    return v


def be(b, o, n):
    v = 0
    for i in range(n):
        v = v + b[o + i] * (256 ** (n - 1 - i))
    return v


class Bad(Exception):
    pass


def both(b, o, n, ok):
    """both-endian field: returns (value, ok & agreement)"""
    a, c = le(b, o, n), be(b, o + n, n)
    return a, ok & (a == c)


def volume_descriptors(rd):
    """[(type, sector)] up to and including the set terminator; raises Bad if malformed"""
    out = []
    s = 16
    while True:
        d = rd(s * 2048, 2048)
        if bytes(d[1:6]) != b'CD001':
            raise Bad('descriptor %d has no CD001' % s)
        t = d[0]
        out.append((t, s))
        if t == 255:
            return out
        s += 1
        if s > 40:
            raise Bad('no volume descriptor set terminator')


def dir_records(rd, extent, length):
    """records of one directory as (offset_in_dir, reclen, extent, datalen, flags, ident bytes, raw, ok): never straddling a sector"""
    out = []
    nsec = length // 2048
    for s in range(nsec):
        sec = rd((extent + s) * 2048, 2048)
        off = 0
        while off < 2048:
            l = sec[off]
            if l == 0:
                for k in range(off, 2048):
                    if sec[k] != 0:
                        raise Bad('non-zero byte in directory padding')
                break
            if off + l > 2048:
                raise Bad('directory record straddles a sector')
            if l % 2 != 0:
                raise Bad('odd record length')
            ok = True
            ext, ok = both(sec, off + 2, 4, ok)
            dl, ok = both(sec, off + 10, 4, ok)
            seq, ok = both(sec, off + 28, 2, ok)
            nlen = sec[off + 32]
            ident = bytes(sec[off + 33:off + 33 + nlen])
            out.append({'pos': s * 2048 + off, 'len': l, 'extent': ext, 'dlen': dl, 'flags': sec[off + 25], 'ident': ident, 'ok': ok, 'seq': seq})
            off += l
    return out


def ecma_key(ident):
    """ECMA-119 9.3 order as pycdlib documents it: '.' < '..' < byte order of the identifiers"""
    if ident == b'\x00':
        return (0, b'')
    if ident == b'\x01':
        return (1, b'')
    return (2, ident)


def walk(rd, vd_sector):
    """decode a whole volume (primary or supplementary): returns (tree, ok) where tree = {path: ('d'|'f', extent, dlen)} and ok collects
    every both-endian agreement / structural equation as ONE boolean term; structural impossibilities raise Bad"""
    vd = rd(vd_sector * 2048, 2048)
    ok = True
    space, ok = both(vd, 80, 4, ok)
    lbs, ok = both(vd, 128, 2, ok)
    ptsize, ok = both(vd, 132, 4, ok)
    pt_le = le(vd, 140, 4)
    pt_be = be(vd, 148, 4)
    root_ext, ok = both(vd, 156 + 2, 4, ok)
    root_len, ok = both(vd, 156 + 10, 4, ok)
    ok = ok & (lbs == 2048)
    tree = {}
    dirs_bfs = []          # (path, extent, parent_index)
    queue = [('', root_ext, root_len, root_ext, root_len, 1)]
    index = 0
    while queue:
        path, ext, ln, pext, plen, pidx = queue.pop(0)
        index += 1
        myidx = index
        dirs_bfs.append((path, ext, pidx))
        recs = dir_records(rd, ext, ln)
        if len(recs) < 2 or recs[0]['ident'] != b'\x00' or recs[1]['ident'] != b'\x01':
            raise Bad('directory %r does not start with . and ..' % path)
        ok = ok & (recs[0]['extent'] == ext) & (recs[0]['dlen'] == ln) & (recs[1]['extent'] == pext) & (recs[1]['dlen'] == plen)
        keys = [ecma_key(r['ident']) for r in recs]
        if keys != sorted(keys):
            raise Bad('directory %r is not sorted' % path)
        for r in recs:
            ok = ok & r['ok'] & (r['seq'] == 1)
        for r in recs[2:]:
            p = path + '/' + r['ident'].hex()
            if r['flags'] & 2:
                tree[p] = ('d', r['extent'], r['dlen'])
                queue.append((p, r['extent'], r['dlen'], ext, ln, myidx))
            else:
                tree[p] = ('f', r['extent'], r['dlen'])
    # path tables: both copies list the directories in BFS order with the parent numbers computed above
    tot = 0
    for order, loc in (('le', pt_le), ('be', pt_be)):
        data = rd(loc * 2048, ((ptsize + 2047) // 2048) * 2048 if isinstance(ptsize, int) else 4096)
        off = 0
        for (path, ext, pidx) in dirs_bfs:
            ldi = data[off]
            e = le(data, off + 2, 4) if order == 'le' else be(data, off + 2, 4)
            par = le(data, off + 6, 2) if order == 'le' else be(data, off + 6, 2)
            name = bytes(data[off + 8:off + 8 + ldi])
            want = bytes.fromhex(path.rsplit('/', 1)[1]) if path else b'\x00'
            if name != want:
                raise Bad('path table %s: entry for %r has name %r' % (order, path, name))
            ok = ok & (e == ext) & (par == pidx)
            off += 8 + ldi + (ldi % 2)
        ok = ok & (off == ptsize)
        tot = off
    return tree, ok, {'space': space, 'root_ext': root_ext}
