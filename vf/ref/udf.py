"""Independent ECMA-167 / UDF reference reader (no pycdlib import): starts from the volume recognition sequence and the anchors only.
rd(pos, n) -> bytes (items may be symbolic).  Returns the recovered tree and ONE boolean term collecting every equation; structural
impossibilities raise Bad.  `check_tags(data, location)` verifies ident/checksum/CRC/location when the bytes are concrete."""
from vf.ref.iso import le, Bad


def crc_ccitt(data):
    c = 0
    for x in data:
        c ^= x << 8
        for _ in range(8):
            c = ((c << 1) ^ 0x1021 if c & 0x8000 else c << 1) & 0xFFFF
    return c


def tag(b, want_ident, location, ok, verify):
    ident = le(b, 0, 2)
    if ident != want_ident:
        raise Bad('tag ident %r where %r expected' % (ident, want_ident))
    ok = ok & (le(b, 12, 4) == location)
    if verify:
        crclen = le(b, 10, 2)
        if (sum(b[0:4]) + sum(b[5:16])) % 256 != b[4]:
            raise Bad('tag checksum wrong for ident %d at %r' % (ident, location))
        if crc_ccitt(bytes(b[16:16 + crclen])) != le(b, 8, 2):
            raise Bad('tag CRC wrong for ident %d at %r' % (ident, location))
    return ok


def walk(rd, nsectors, verify, rd_sym=None, is_concrete=lambda x: isinstance(x, int)):
    """rd_sym(pos, n) -> (bytes, cond): a read at a SYMBOLIC position; the bytes are the ones at pos provided cond holds"""
    ok = True
    # volume recognition sequence: somewhere in 16..31 a BEA01 .. NSR0x .. TEA01 run
    ids = []
    for s in range(16, 32):
        d = rd(s * 2048, 7)
        ids.append(bytes(d[1:6]))
    if b'BEA01' not in ids or b'TEA01' not in ids or not any(i in (b'NSR02', b'NSR03') for i in ids):
        raise Bad('no UDF volume recognition sequence: %r' % ids)
    if not (ids.index(b'BEA01') < [i for i, v in enumerate(ids) if v in (b'NSR02', b'NSR03')][0] < ids.index(b'TEA01')):
        raise Bad('recognition sequence out of order')
    # anchors at 256 and at the last sector must agree
    a1 = rd(256 * 2048, 512)
    ok = tag(a1, 2, 256, ok, verify)
    if is_concrete(nsectors) or rd_sym is None:
        a2 = rd((nsectors - 1) * 2048, 512)
    else:
        a2, c2 = rd_sym((nsectors - 1) * 2048, 512)
        ok = ok & c2
    ok = tag(a2, 2, nsectors - 1, ok, False) if not is_concrete(nsectors) else tag(a2, 2, nsectors - 1, ok, verify)
    main_len, main_loc = le(a1, 16, 4), le(a1, 20, 4)
    ok = ok & (le(a2, 16, 4) == main_len) & (le(a2, 20, 4) == main_loc) & (le(a2, 24, 4) == le(a1, 24, 4)) & (le(a2, 28, 4) == le(a1, 28, 4))
    res_loc = le(a1, 28, 4)
    part_start = part_len = fsd_lbn = lvid_loc = None
    for seq in (main_loc, res_loc):
        got = {}
        for k in range(main_len // 2048):
            d = rd((seq + k) * 2048, 2048)
            ident = le(d, 0, 2)
            if ident == 0:
                break
            ok = tag(d, ident, seq + k, ok, verify)
            got[ident] = d
            if ident == 8:
                break
        for need in (1, 5, 6, 8):
            if need not in got:
                raise Bad('volume descriptor sequence at %d lacks descriptor %d' % (seq, need))
        ps, pl = le(got[5], 188, 4), le(got[5], 192, 4)
        fl = le(got[6], 252, 4)
        il = le(got[6], 436, 4)
        if part_start is None:
            part_start, part_len, fsd_lbn, lvid_loc = ps, pl, fl, il
        else:
            ok = ok & (ps == part_start) & (pl == part_len) & (fl == fsd_lbn) & (il == lvid_loc)      # reserve sequence mirrors the main one
        ok = ok & (le(got[6], 212, 4) == 2048)
    lvid = rd(lvid_loc * 2048, 2048)
    ok = tag(lvid, 9, lvid_loc, ok, verify)
    nparts = le(lvid, 72, 4)
    l_iu = le(lvid, 76, 4)
    ok = ok & (nparts == 1)
    size_table = le(lvid, 80 + 4, 4)
    num_files, num_dirs = le(lvid, 80 + 8 + 32, 4), le(lvid, 80 + 8 + 36, 4)
    ok = ok & (size_table == part_len)
    fsd = rd((part_start + fsd_lbn) * 2048, 512)
    ok = tag(fsd, 256, fsd_lbn, ok, verify)
    root_lbn = le(fsd, 404, 4)
    tree = {}
    symlinks = {}
    refs = {}          # File Entry block -> number of File Identifier Descriptors identifying it (ECMA-167 4/14.9.6)
    linkcount = {}     # File Entry block -> (recorded File Link Count, is directory)
    blocks = []        # every partition block referenced (for the partition-length check)
    todo = [('', root_lbn, root_lbn)]
    ndirs = nfiles = 0
    while todo:
        path, lbn, parent_lbn = todo.pop(0)
        fe = rd((part_start + lbn) * 2048, 2048)
        ok = tag(fe, 261, lbn, ok, verify)
        blocks.append(lbn)
        ftype = fe[16 + 11]
        linkcount[lbn] = (le(fe, 48, 2), ftype == 4)
        info_len = le(fe, 56, 8)
        recorded = le(fe, 64, 8)
        l_ea, l_ad = le(fe, 168, 4), le(fe, 172, 4)
        if not is_concrete(l_ad) or not is_concrete(l_ea):
            raise Bad('symbolic descriptor lengths')
        ads = []
        for k in range(l_ad // 8):
            o = 176 + l_ea + 8 * k
            ads.append((le(fe, o, 4), le(fe, o + 4, 4)))
        if ftype == 4:
            ndirs += 1
            alen, apos = ads[0]
            ok = ok & (alen == info_len) & (recorded == (info_len + 2047) // 2048)
            if not is_concrete(info_len):
                raise Bad('symbolic directory length')
            data = rd((part_start + apos) * 2048, info_len)
            off = 0
            nparent = 0
            while off < info_len:
                fid = data[off:off + 38]
                ok = tag(fid, 257, apos + off // 2048, ok, False)
                ch = fid[18]
                l_fi = fid[19]
                icb = le(fid, 24, 4)
                liu = le(fid, 36, 2)
                name = bytes(data[off + 38 + liu:off + 38 + liu + l_fi])
                rec = 38 + liu + l_fi
                rec += (4 - rec % 4) % 4
                if verify:
                    tag(data[off:off + rec], 257, apos + off // 2048, True, True)
                if not is_concrete(icb):
                    raise Bad('symbolic ICB location in a File Identifier Descriptor')
                refs[icb] = refs.get(icb, 0) + 1
                if ch & 8:
                    # ECMA-167 4/14.4.3 / 4/8.6: the parent entry identifies the ICB of the parent directory (the root is its own parent)
                    ok = ok & (icb == parent_lbn)
                    nparent = nparent + 1
                else:
                    p = path + '/' + name[1:].hex()
                    tree[p] = None
                    todo.append((p, icb, lbn))
                    tree[p] = ('d' if ch & 2 else 'f', icb)
                off += rec
            ok = ok & (off == info_len)
            if nparent != 1:
                raise Bad('directory %r has %d parent entries' % (path, nparent))
            for k in range((info_len + 2047) // 2048):
                blocks.append(apos + k)
        else:
            nfiles += 1
            tot = 0
            for alen, apos in ads:
                tot = tot + (alen % (1 << 30))
            ok = ok & (tot == info_len) & (recorded == (info_len + 2047) // 2048)
            if ftype == 12:
                # symbolic link: the body (path components, ECMA-167 4/14.16) is the file's data
                if not is_concrete(info_len) or len(ads) != 1:
                    raise Bad('symbolic link %r with a symbolic or fragmented body' % path)
                bpos = (part_start + ads[0][1]) * 2048
                if is_concrete(bpos) or rd_sym is None:
                    symlinks[path] = rd(bpos, info_len)
                else:
                    symlinks[path], cb = rd_sym(bpos, info_len)
                    ok = ok & cb
            if path in tree or path == '':
                kind, icb = tree.get(path, ('f', lbn))
                tree[path] = (kind, icb, info_len, ads[0][1] if ads else None, ftype)
    link_ok = True
    for lbn, (cnt, isdir) in linkcount.items():
        if isdir:
            ok = ok & (cnt == refs.get(lbn, 0))
        else:
            link_ok = link_ok & (cnt == refs.get(lbn, 0))
    return tree, ok, {'part_start': part_start, 'part_len': part_len, 'num_files': num_files, 'num_dirs': num_dirs, 'nfiles': nfiles, 'ndirs': ndirs,
                      'blocks': blocks, 'symlinks': symlinks, 'file_link_ok': link_ok}
