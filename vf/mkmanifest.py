"""Regenerates /verif/MANIFEST.json from the per-property META tables (run: python3-vt vf/mkmanifest.py)."""
import importlib
import json
import os
import sys

HERE = os.path.dirname(os.path.dirname(os.path.abspath(__file__)))
sys.path.insert(0, HERE)
sys.path.insert(0, '/repo')
os.environ['VF_MODE'] = 'plan'

ALL = ['C%02d' % i for i in range(1, 21)]
BASE_OFF = "cd /repo && env -u PYCDLIB_VERIF /venv/bin/python -m pytest -ra -q -p no:cacheprovider --timeout=900 --continue-on-collection-errors"


def main():
    checks = []
    na = []
    for pid in ALL:
        try:
            mod = importlib.import_module('vf.props.' + pid)
        except ModuleNotFoundError:
            na.append({'property_id': pid, 'reason': NOT_YET.get(pid, 'no solver-decided obligation built for this property yet (work in progress); nothing is claimed')})
            continue
        m = mod.MANIFEST
        entry = {
            'property_id': pid,
            'quick_cmd': './check %s --tier quick' % pid,
            'thorough_cmd': './check %s --tier thorough' % pid,
            'evidence_file': 'evidence/%s.json' % pid,
            'replay_cmd_template': './check --replay {path}',
            'engine': m.get('engine', 'vf (CrossHair/z3 symbolic execution of the real pycdlib functions)'),
            'level_claimed': {'category': 'model_checking', 'text': m['text'], 'design_ref': m.get('design_ref', 'DESIGN.md section 2, ' + pid)},
            'level_note': m['note'],
            'technique': m['technique'],
        }
        if pid in THOROUGH_NOT_VALIDATED:
            # a thorough command is registered only once it ran end-to-end with exit 0 on the repaired tree (sized by total wall time)
            del entry['thorough_cmd']
            entry['level_note'] += ' The thorough tier of this property (./check %s --tier thorough: wider configurations, same harnesses) was not run ' \
                                   'end-to-end within the build time and is therefore not registered.' % pid
        checks.append(entry)
    man = {
        'version': 1,
        'setup_cmd': './setup.sh',
        'hooks': {'guard': 'PYCDLIB_VERIF', 'enable': 'not needed: the machinery substitutes environment models on the imported module objects; no hook exists in /repo',
                  'baseline_off_cmd': BASE_OFF, 'source_commits': [], 'add_only': True},
        'engines': [
            {'name': 'chx', 'path': 'vf/worker.py', 'serves_properties': [c['property_id'] for c in checks],
             'kind_free_text': 'E1: CrossHair 0.0.110 symbolic execution of harnesses over the real pycdlib functions, z3 decides every branch and the postcondition; one OS process per obligation; reachability twin per obligation; counterexamples replayed on the real code under /venv/bin/python'},
            {'name': 'bvx', 'path': 'vf/bvx.py', 'serves_properties': [p for p in ('C10', 'C11', 'C12', 'C20') if any(c['property_id'] == p for c in checks)],
             'kind_free_text': 'E2: the real integer kernels run on z3 bit-vector proxies with path forking; queries cross-checked with a second solver'},
            {'name': 'strx', 'path': 'vf/strx.py', 'serves_properties': [p for p in ('C13', 'C18', 'C20') if any(c['property_id'] == p for c in checks)],
             'kind_free_text': 'E3: AST-to-SMT translation of the name-mangling functions over a bounded string domain with an alphabet quotient computed from the running interpreter'},
        ],
        'checks': checks,
        'not_applicable': na,
        'notes': 'Every verdict is bounded: see the "bounds" field of each obligation in the evidence files and DESIGN.md. '
                 'Exit codes: 0 all obligations hold within their bounds; 1 a replayed violation (VIOLATION line); 3 inconclusive/harness error (never a VIOLATION line).',
    }
    with open(os.path.join(HERE, 'MANIFEST.json'), 'w') as f:
        json.dump(man, f, indent=1)
    print('MANIFEST: %d checks, %d not_applicable' % (len(checks), len(na)))


NOT_YET = {}
# measured end-to-end runs of the thorough tiers: see DESIGN.md A.7
THOROUGH_NOT_VALIDATED = {'C04', 'C01', 'C10'}

if __name__ == '__main__':
    main()
