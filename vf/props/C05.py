"""C05 Re-mastering is a fixpoint (DESIGN section 2, C05)."""
import importlib
import inspect

from vf import h

h.fix_env()
h.install_struct_model()
h.stub_udf_crc()
from pycdlib import pycdlibexception  # noqa: E402

CLS = h.P.get('cls', 'isohybrid.APMPartHeader')
NB = int(h.P.get('nbytes', 16))
FIXED = h.P.get('fixed', {})          # byte offset -> concrete value (magic numbers the parser insists on)


def _cls():
    modname, cname = CLS.split('.')
    return getattr(importlib.import_module('pycdlib.' + modname), cname)


def _parse(obj, data):
    sig = inspect.signature(obj.parse)
    n = len(sig.parameters)
    if n == 1:
        return obj.parse(data)
    extra = {'extent': 0, 'extent_loc': 0, 'desc_tag': None, 'orig_extent': 0, 'parent': None, 'vd': None, 'extent_location': 0}
    args = [data]
    for name in list(sig.parameters)[1:]:
        args.append(extra.get(name, 0))
    return obj.parse(*args)


def roundtrip(b: bytes) -> bool:
    """
    pre: len(b) == NB
    post: _
    """
    # parse is applied to ARBITRARY bytes; whenever it accepts, record() must be a fixpoint of parse-then-record:
    #   r1 = record(parse(b));  r2 = record(parse(r1));  r1 == r2     and  parse(r1) has the same public fields as parse(b)
    # (on the writer's range r1 == b, so this is "open then write reproduces the bytes" for one structure)
    data = bytes(FIXED.get(str(i), b[i]) if str(i) in FIXED else b[i] for i in range(NB))
    cls = _cls()
    o1 = cls()
    try:
        res = _parse(o1, data)
    except Exception:  # noqa   not parseable (whatever the reason): outside the domain of the fixpoint (robustness of parsing is C15's subject)
        return h.post(True)
    if res is False:
        return h.post(True)
    r1 = o1.record()
    o2 = cls()
    _parse(o2, r1)
    r2 = o2.record()
    ok = (len(r1) == len(r2)) & (r1 == r2)
    for name in getattr(cls, '__slots__', ()):
        if name.startswith('_') or name in ('orig_extent_loc', 'new_extent_loc', 'desc_tag', 'parent'):
            continue
        if hasattr(o1, name) and hasattr(o2, name):
            v1, v2 = getattr(o1, name), getattr(o2, name)
            if isinstance(v1, (int, bytes, bool)) or h.SYM:
                try:
                    ok = ok & (v1 == v2)
                except Exception:  # noqa  objects without comparison
                    pass
    return h.post(ok)


def remaster(l0: int, l1: int, l2: int) -> bool:
    """
    pre: 0 <= l0 <= 6144 and 0 <= l1 <= 6144 and 0 <= l2 <= 6144
    post: _
    """
    # C05.b: real write_fp -> real open_fp -> real write_fp: the second write log and the metadata chunks equal the first
    # (except the volume modification date, 17 bytes at offset 830 of each volume descriptor)
    import pycdlib
    from vf import skel
    from vf.skel import SKELETONS
    cfg = h.P.get('cfg') or skel.cfg_of()
    fixed = h.P.get('fixedlens')
    if fixed:
        l1, l2 = fixed
    iso = skel.new_iso(cfg)
    SKELETONS[h.P.get('sk', 'sk1')](iso, [l0, l1, l2], cfg)
    out1 = h.OutFP()
    iso.write_fp(out1, blocksize=1 << 40)
    iso2 = pycdlib.PyCdlib()
    iso2.open_fp(h.ImageFP(out1))
    out2 = h.OutFP()
    iso2.write_fp(out2, blocksize=1 << 40)
    ok = (out1.end == out2.end) & (len(out1.log) == len(out2.log))
    for (a1, b1), (a2, b2) in zip(sorted(out1.log, key=lambda x: (h.concrete(x[0]), x[0] if h.concrete(x[0]) else 0)), sorted(out2.log, key=lambda x: (h.concrete(x[0]), x[0] if h.concrete(x[0]) else 0))):
        if h.concrete(a1) and h.concrete(a2):
            ok = ok & (a1 == a2) & (b1 == b2)
    # every METADATA chunk of the first image (real bytes at a concrete position) is reproduced byte for byte by the second write;
    # file data (length-only spans in the first write) are carried over by position/length (log) and are not compared by content
    second = dict((p, d) for (p, d) in out2.chunks)
    for (p1, d1) in out1.chunks:
        if p1 not in second:
            return False
        d2 = second[p1]
        if len(d1) != len(d2):
            return False
        if len(d1) == 2048 and p1 // 2048 >= 16 and d1[1:6] == b'CD001' and d1[0] in (1, 2):
            ok = ok & (d1[:813] == d2[:813]) & (d1[881:] == d2[881:])      # the four 17-byte dates at 813..880 excluded
        else:
            ok = ok & (d1 == d2)
    return h.post(ok)


META = {
    'validate': ['struct_model_vs_struct', 'fpmodel_vs_bytesio'],
    'explanation': 'C05.a: for each parse/record class in the catalogue: record(parse(.)) is a fixpoint on EVERY byte string the parser accepts (symbolic '
                   'bytes of the structure\'s size; magic numbers fixed), which contains the writer\'s range.  C05.b: real write -> real open -> real write on a '
                   'skeleton with symbolic lengths reproduces the metadata chunks byte for byte apart from the volume-descriptor dates.',
    'assumptions': ['classes in the catalogue only (see obligations); variable-length tails bounded by the stated byte count',
                    'UDF tag CRC/checksum constant on both sides (C10.a decides them)', 're-open bound: lengths <= 6144'],
}

MANIFEST = {
    'text': 'Bounded symbolic check of parse/record inverse pairs (all byte strings of the structure size) and of whole-image re-mastering on skeletons with '
            'symbolic file lengths.',
    'note': 'Bounded by the class catalogue, byte counts and skeleton family; trusted: CrossHair, z3, M_struct, M_out/M_image.',
    'technique': 'symbolic execution of real parse()/record() pairs and of write_fp/open_fp/write_fp (CrossHair + z3)',
}

# not in the catalogue (measured): GPTPartHeader, UDFShortAD, UDFPartitionHeaderDescriptor did not exhaust in 900 s (bit operations on symbolic
# fields); UDFICBTag gave a counterexample that does not reproduce (CrossHair modelling); PathTableRecord / RRPXRecord have no plain record().
CATALOGUE = [
    # (class, bytes, fixed bytes)
    ('isohybrid.APMPartHeader', 512, dict([('0', 0x50), ('1', 0x4d)] + [(str(i), 0x41) for i in range(16, 80)] + [(str(i), 0) for i in range(120, 512)])),
    ('dates.DirectoryRecordDate', 7, {}),
    ('eltorito.EltoritoEntry', 32, {}),
    ('eltorito.EltoritoSectionHeader', 32, {}),
    ('udf.UDFExtentAD', 8, {}),
    ('udf.UDFLongAD', 16, {}),
    ('udf.UDFCharspec', 64, {}),
    ('udf.UDFEntityID', 32, {}),
    ('udf.UDFLogicalVolumeHeaderDescriptor', 32, {}),
    ('rockridge.RRPNRecord', 20, {'0': 0x50, '1': 0x4e, '2': 20, '3': 1}),
    ('rockridge.RRCERecord', 28, {'0': 0x43, '1': 0x45, '2': 28, '3': 1}),
    ('rockridge.RRCLRecord', 12, {'0': 0x43, '1': 0x4c, '2': 12, '3': 1}),
    ('rockridge.RRPLRecord', 12, {'0': 0x50, '1': 0x4c, '2': 12, '3': 1}),
    ('rockridge.RRSPRecord', 7, {'0': 0x53, '1': 0x50, '2': 7, '3': 1}),
    ('rockridge.RRRRRecord', 5, {'0': 0x52, '1': 0x52, '2': 5, '3': 1}),
]


def obligations(tier):
    from vf import skel
    obs = []
    for cls, nb, fixed in CATALOGUE:
        obs.append({'name': 'C05.a/%s' % cls, 'module': __name__, 'func': 'roundtrip', 'params': {'cls': cls, 'nbytes': nb, 'fixed': fixed},
                    'cond_timeout': 900, 'path_timeout': 200,
                    'bounds': 'all byte strings of %d bytes%s' % (nb, (' with %d bytes fixed (magic numbers, ASCII text fields, padding)' % len(fixed)) if fixed else ''),
                    'functions': [cls + '.parse', cls + '.record'], 'stubs': ['M_struct']})
    cfgs = [skel.cfg_of(3, None, None, False, False), skel.cfg_of(3, 3, '1.09', False, False)] if tier == 'quick' else [c for c in skel.quick_cfgs() if not c['udf']]
    for c in cfgs:
        obs.append({'name': 'C05.b/sk1/%s' % skel.cfg_name(c), 'module': __name__, 'func': 'remaster',
                    'params': {'cfg': c, 'sk': 'sk1', 'fixedlens': [0, 2049] if tier == 'quick' else None}, 'cond_timeout': 2400, 'path_timeout': 400,
                    'bounds': 'skeleton sk1; config %s; %s' % (skel.cfg_name(c), 'l0 in [0,6144], l1 = 0, l2 = 2049' if tier == 'quick' else 'three lengths in [0,6144]'),
                    'functions': ['PyCdlib.write_fp', 'PyCdlib.open_fp', 'every parse()/record() reached'], 'samples': [(1, 2048, 2049)],
                    'stubs': ['M_struct', 'M_out', 'M_image', 'constant clock']})
    return obs
