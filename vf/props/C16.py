"""C16 Reading files: exact bytes, stream semantics, no interference (DESIGN section 2, C16).

Construction (I): ONE operation of the real PyCdlibIO from an ARBITRARY reachable stream state
(logical offset any integer >= 0) with the SHARED underlying file position moved arbitrarily by
another reader beforehand.  Invariant: _offset >= 0, _startpos == base, _length == file length.
One step from an arbitrary invariant state covers operation sequences / interleavings of any length.
"""
from vf import h

h.fix_env()
from pycdlib import pycdlibio, inode, pycdlibexception, utils  # noqa: E402
from pycdlib import pycdlib as pm  # noqa: E402

KIND = h.P.get('kind', 'iso')      # 'iso': data on the original image; 'ext': external fp with fp_offset
LBS = 2048


class SharedFP(h.InFP):
    """the image / source file shared by every reader: positions only; reads clipped at its size"""
    pass


def _mk(ext, length, off0, intr):
    size = LBS * (ext + 4) + 6000
    fp = SharedFP('shared', size)
    ino = inode.Inode()
    if KIND == 'iso':
        ino.parse(ext, length, fp, LBS)
        base = ext * LBS
    else:
        ino.new(length, fp, False, ext)
        base = ext
    io_ = pycdlibio.PyCdlibIO(ino, LBS)
    io_.__enter__()
    # arbitrary reachable stream state: logical offset off0 (reached in the real code by seek(off0))
    io_._offset = off0
    # another reader of the same image moves the shared position anywhere
    fp.seek(intr)
    fp.reads.clear()
    return fp, io_, base


PRE = """
    pre: 0 <= ext <= 100 and 0 <= length <= 5000
    pre: 0 <= off0 <= 6000 and 0 <= intr <= 300000
"""


def inv(io_, base, length):
    return (io_._offset >= 0) & (io_._startpos == base) & (io_._length == length)


def step_seek(ext: int, length: int, off0: int, intr: int, arg: int, whence: int) -> bool:
    """
    pre: 0 <= ext <= 100 and 0 <= length <= 5000
    pre: 0 <= off0 <= 6000 and 0 <= intr <= 300000
    pre: -7000 <= arg <= 7000 and 0 <= whence <= 3
    post: _
    """
    fp, io_, base = _mk(ext, length, off0, intr)
    want = arg if whence == 0 else (off0 + arg if whence == 1 else length + arg)
    try:
        new = io_.seek(arg, whence)
    except pycdlibexception.PyCdlibInvalidInput:
        # io.BytesIO raises ValueError exactly for: bad whence, negative absolute target with whence 0;
        # for whence 1/2 BytesIO clamps at 0; the library documents refusing instead. State must be unchanged.
        return h.post((io_.tell() == off0) & ((whence == 3) | (want < 0)) & inv(io_, base, length))
    return h.post((whence != 3) & (want >= 0) & (new == want) & (io_.tell() == want) & inv(io_, base, length))


def _check_read(fp, io_, base, length, off0, data, n):
    """data must be the n bytes at logical offset off0: i.e. read from absolute base+off0"""
    if n == 0:
        return (len(data) == 0) & (io_.tell() == off0)
    ok = (len(data) == n) & (io_.tell() == off0 + n)
    if isinstance(data, h.Span):
        ok = ok & (data.start == base + off0)
    else:
        ok = False
    return ok


def step_read(ext: int, length: int, off0: int, intr: int, n: int) -> bool:
    """
    pre: 0 <= ext <= 100 and 0 <= length <= 5000
    pre: 0 <= off0 <= 6000 and 0 <= intr <= 300000
    pre: -2 <= n <= 7000
    post: _
    """
    fp, io_, base = _mk(ext, length, off0, intr)
    data = io_.read(None if n == -2 else n)
    remaining = max(0, length - off0)
    want = remaining if n < 0 else min(remaining, n)
    return h.post(_check_read(fp, io_, base, length, off0, data, want) & inv(io_, base, length))


def step_readall(ext: int, length: int, off0: int, intr: int) -> bool:
    """
    pre: 0 <= ext <= 100 and 0 <= length <= 5000
    pre: 0 <= off0 <= 6000 and 0 <= intr <= 300000
    post: _
    """
    fp, io_, base = _mk(ext, length, off0, intr)
    data = io_.readall()
    want = max(0, length - off0)
    return h.post(_check_read(fp, io_, base, length, off0, data, want) & inv(io_, base, length))


class ContentFP:
    """shared file with CONTENT (for readinto, which copies into a caller buffer): byte at absolute p is (7p+3) mod 251"""
    mode = 'rb'

    def __init__(self, size):
        self.data = bytes((7 * p + 3) % 251 for p in range(size))
        self.pos = 0

    def seek(self, off, whence=0):
        self.pos = off if whence == 0 else (self.pos + off if whence == 1 else len(self.data) + off)
        return self.pos

    def tell(self):
        return self.pos

    def read(self, n=-1):
        s = self.pos
        e = len(self.data) if (n is None or n < 0) else min(len(self.data), s + n)
        if e < s:
            e = s
        self.pos = e
        return self.data[s:e]


class _MV:
    """stand-in for memoryview(b).cast('B') under CrossHair (which mis-models writes through a memoryview:
    measured, `m[:k] = data` does not reach the underlying bytearray).  Same contract: len, slice assignment."""
    def __init__(self, b):
        self.b = b

    def cast(self, fmt):
        return self

    def __len__(self):
        return len(self.b)

    def __setitem__(self, sl, data):
        n = sl.stop
        if len(data) != n:
            raise ValueError('memoryview assignment: lvalue and rvalue have different structures')
        for i in range(n):
            self.b[i] = data[i]


if h.SYM:
    pycdlibio.memoryview = _MV


def step_readinto(ext: int, length: int, off0: int, intr: int, m: int) -> bool:
    """
    pre: 0 <= ext <= 3 and 0 <= length <= 20
    pre: 0 <= off0 <= 24 and 0 <= intr <= 120
    pre: 0 <= m <= 6
    post: _
    """
    lbs = 16
    fp = ContentFP(lbs * 4 + 40)
    ino = inode.Inode()
    if KIND == 'iso':
        ino.parse(ext, length, fp, lbs)
        base = ext * lbs
    else:
        ino.new(length, fp, False, ext)
        base = ext
    io_ = pycdlibio.PyCdlibIO(ino, lbs)
    io_.__enter__()
    io_._offset = off0
    fp.seek(intr)
    buf = None
    for mm in range(7):          # finite, exhaustive case split: the caller's buffer is a REAL bytearray
        if m == mm:              # (memoryview of a CrossHair symbolic bytearray would write into a copy)
            buf = bytearray(b'\xee' * mm)
            m = mm
            break
    got = io_.readinto(buf)
    want = min(max(0, length - off0), m)
    ok = (got == want) & (io_.tell() == off0 + want)
    exp = bytes((7 * (base + off0 + i) + 3) % 251 for i in range(want))
    ok = ok & (bytes(buf[:want]) == exp) & (bytes(buf[want:]) == b'\xee' * (m - want))
    return h.post(ok & inv(io_, base, length))


def extract(ext: int, length: int, bs: int, intr: int) -> bool:
    """
    pre: 0 <= ext <= 100 and 0 <= length <= 5000 and 1 <= bs <= 7000 and 0 <= intr <= 300000
    pre: length <= 4 * bs
    post: _
    """
    # C16.b: whole-file extraction (utils.copy_data through InodeOpenData) with any positive block size:
    # the reads issued on the shared file cover exactly [base, base+length) in order, the writes sum to length.
    size = LBS * (ext + 4) + 6000
    fp = SharedFP('shared', size)
    ino = inode.Inode()
    if KIND == 'iso':
        ino.parse(ext, length, fp, LBS)
        base = ext * LBS
    else:
        ino.new(length, fp, False, ext)
        base = ext
    fp.seek(intr)
    out = h.OutFP()
    with inode.InodeOpenData(ino, LBS) as (data_fp, data_len):
        utils.copy_data(data_len, bs, data_fp, out)
    ok = (out.end == length)
    cur = base
    for (s, n) in fp.reads:
        ok = ok & (s == cur)
        cur = cur + n
    ok = ok & (cur == base + length)
    return h.post(ok)


META = {
    'explanation': 'C16: one operation of the real PyCdlibIO from an arbitrary reachable stream state with the shared file position '
                   'moved by another reader; results compared with the io.BytesIO semantics of the file content.',
    'assumptions': ['the underlying file object obeys the io seek/tell/read contract (position model validated against io.BytesIO)',
                    'reachable stream states are exactly: logical offset >= 0 (established by the seek obligation itself: it keeps the invariant)',
                    'OS-level short reads are outside the claim'],
    'validate': ['fpmodel_vs_bytesio'],
}

MANIFEST = {
    'text': 'Inductive one-step bounded symbolic check of the real PyCdlibIO (seek/read/readall/readinto) and of whole-file extraction: '
            'from every stream state satisfying the invariant and every position of the shared file, z3 decides that the operation returns '
            'exactly the bytes of the file at the logical offset (never beyond its end), advances the offset like io.BytesIO and keeps the '
            'invariant; one step from an arbitrary invariant state covers call sequences and interleavings of any length.',
    'note': 'Bounds: file length <= 5000, extent <= 100, offsets <= 6000, read sizes <= 7000 (readinto: content model with 16-byte blocks, '
            'length <= 20, buffer <= 6); whole-file extraction bounded to 4 copy-loop iterations. Trusted: CrossHair, z3, the file-position model.',
    'technique': 'inductive one-step symbolic execution of real PyCdlibIO code (CrossHair + z3) against a BytesIO reference',
}


def obligations(tier):
    obs = []
    for kind in ('iso', 'ext'):
        for fn, b in (('step_seek', 'arg in [-7000,7000], whence in 0..3'), ('step_read', 'n in [-2,7000] (-2 = None)'),
                      ('step_readall', ''), ('step_readinto', 'content model: lbs 16, ext<=3, length<=20, off0<=24, buffer m<=6'),
                      ('extract', 'blocksize in [1,7000], length <= 4*blocksize (<= 4 loop iterations)')):
            obs.append({'name': 'C16/%s/%s' % (fn, kind), 'module': __name__, 'func': fn, 'params': {'kind': kind},
                        'cond_timeout': 300, 'path_timeout': 60,
                        'bounds': 'inode kind %s; ext<=100, length<=5000, off0<=6000, shared position<=300000; %s' % (kind, b),
                        'functions': ['PyCdlibIO.__enter__', 'PyCdlibIO.' + fn.replace('step_', ''), 'PyCdlibIO.tell', 'InodeOpenData.__enter__',
                                      'Inode.parse', 'Inode.new'] + (['utils.copy_data', 'utils.copy_data_yield'] if fn == 'extract' else []),
                        'stubs': ['M_fp position model (Span data)' if fn != 'step_readinto' else 'content file model']})
    return obs
