"""C20 Tools round trip -- partial claim: the tools' pure kernels (DESIGN section 2, C20)."""
from vf import h

META = {
    'explanation': 'C20.b: the solver searches for two distinct equal-length contents with equal mm3hash on the REAL hash function (bit-vector '
                   'execution); the pair it finds is replayed through the REAL pycdlib-genisoimage with -scan-for-duplicates and both files are '
                   'read back from the built image.',
    'assumptions': ['os.walk order, option parsing, real files/symlinks and pycdlib-extract-files path building are I/O-bound code without a symbolic '
                    'quantity: outside this technique, exercised only concretely inside the replay',
                    'contents of 8 bytes (one hash round trip of two blocks)'],
}

MANIFEST = {
    'text': 'Adversarial-input generation by solver on the real 32-bit hash and replay through the real tool; name-building functions '
            'translated to SMT over a bounded string domain (E3) where built.',
    'note': 'Partial: only the pure kernels of the tools are decided; the file-system walk is outside (stated in DESIGN C20).',
    'technique': 'bit-vector symbolic execution of real mm3hash (z3) + replay through the real tool; AST-to-SMT for path builders',
}


def obligations(tier):
    K = 'vf.kernels'
    return [
        {'name': 'C20.b/mm3_collision_8', 'engine': 'py', 'module': K, 'func': 'mm3_collision', 'params': {'n': 8}, 'cond_timeout': 900,
         'bounds': 'two contents of 8 bytes each', 'functions': ['tools/pycdlib-genisoimage:mm3hash', 'tools/pycdlib-genisoimage:main (duplicate linking, replay)'],
         'stubs': ['bytearray()/xencode() identity on proxies']},
    ]
