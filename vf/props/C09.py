"""C09 Joliet fidelity (DESIGN section 2, C09): the independent reader of vf/ref/iso.py applied to the supplementary volume descriptor."""
from vf import skel
from vf.props import C03

META = dict(C03.META)
META['explanation'] = ('C09.a: the reference decoder walks the SUPPLEMENTARY descriptor of images written by the real writer for histories with DIVERGENT '
                       'trees (ISO-only / Joliet-only files and directories, non-ASCII and 64-character names, a link from an ISO file into the Joliet tree, '
                       'removals on one side): its own path tables and sizes are consistent, the recovered UCS-2 names equal the names given, each Joliet '
                       'file points at the data extent of its content. ' + C03.META['explanation'])
META['assumptions'] = C03.META['assumptions'] + ['names concrete (the name-conversion rule for arbitrary Unicode strings, C09.b of the design, is NOT built: '
                                                   'CrossHair realises str.encode); Joliet levels 1-3']

MANIFEST = {
    'text': 'Bounded symbolic check of the Joliet tree by an independent reader over the bytes written by the real writer (divergent ISO/Joliet histories, '
            'symbolic file lengths): both-endian agreement, sorted directories, path tables, names, shared data extents.',
    'note': 'Names are concrete; the claim is over file lengths and the stated histories/Joliet levels. "Names Joliet cannot hold are refused" is only covered for '
            'the 64-character boundary by the concrete names used. Trusted: CrossHair, z3, M_struct, reference decoder.',
    'technique': 'symbolic execution of real write_fp (CrossHair + z3) decoded by an independent ECMA-119/Joliet reference reader',
}


def obligations(tier):
    obs = []
    cfgs = [skel.cfg_of(3, 3, None, False, False), skel.cfg_of(3, 1, '1.09', False, False)]
    if tier != 'quick':
        cfgs += [skel.cfg_of(1, 2, None, False, False), skel.cfg_of(4, 3, '1.12', False, False), skel.cfg_of(2, 3, None, False, True)]
    for sk in ('sk8', 'sk1'):
        for c in cfgs:
            obs.append({'name': 'C09.a/%s/%s' % (sk, skel.cfg_name(c)), 'module': 'vf.props.C03', 'func': 'reader', 'params': {'sk': sk, 'cfg': c},
                        'cond_timeout': 1200, 'path_timeout': 300, 'bounds': 'skeleton %s; config %s; three lengths in [0, 0x3ffff800]' % (sk, skel.cfg_name(c)),
                        'functions': ['PyCdlib.add_joliet_directory', 'PyCdlib._add_joliet_dir', 'PyCdlib._joliet_name_and_parent_from_path', 'joliet_vd_factory',
                                      'PyCdlib.write_fp', 'DirectoryRecord.record', 'PrimaryOrSupplementaryVD.record'],
                        'samples': [(1, 2048, 2049)], 'stubs': ['M_struct', 'M_out', 'M_image', 'constant clock']})
    return obs
