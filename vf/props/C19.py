"""C19 Recorded timestamps denote the instant they were made from (DESIGN section 2, C19)."""
from vf import h

h.fix_env()
import time as _real_time  # noqa: E402
from vf.models import mtime  # noqa: E402
from pycdlib import dates, utils, rockridge, udf  # noqa: E402

h.install_struct_model()
_TM = mtime.TimeModule(_real_time)
if h.SYM:
    _TM.strftime = lambda fmt, tm: '00000000000000'     # digit rendering is C code: outside the solver claim (DESIGN C19)
for _m in (dates, utils, rockridge, udf):
    _m.time = _TM

TZLO = int(h.P.get('tzlo', -1440))
TZHI = int(h.P.get('tzhi', 1440))
TMIN = 50400                       # so that t + 900k stays inside 1970..2099 for every k in [-48, 56]
TMAX = 4102444800 - 50400 - 1

CUM = mtime.CUM
CUML = mtime.CUML


def decode_eq(y, mon, d, hh, mi, s, off_seconds, t):
    """reference decoding (independent of the model's construction): civil fields + offset -> epoch seconds == t.
    One formula when symbolic (z3 integer division by constants), plain arithmetic otherwise."""
    if not h.SYM:
        leap = y % 4 == 0
        days = 365 * (y - 1970) + (y - 1969) // 4 + (CUML if leap else CUM)[mon - 1] + d - 1
        return days * 86400 + hh * 3600 + mi * 60 + s - off_seconds == t and 1 <= mon <= 12 and 1 <= d <= 31
    import z3
    from crosshair.tracers import NoTracing
    from crosshair.libimpl.builtinslib import SymbolicBool
    with NoTracing():
        def tz(x):
            return x.var if hasattr(x, 'var') else z3.IntVal(int(x))
        Y, M, D, H, MI, S, O, T = [tz(v) for v in (y, mon, d, hh, mi, s, off_seconds, t)]
        leap = (Y % 4) == 0
        cum = z3.IntVal(0)
        for k in range(12, 0, -1):
            cum = z3.If(M == k, z3.If(leap, CUML[k - 1], CUM[k - 1]), cum)
        days = 365 * (Y - 1970) + (Y - 1969) / 4 + cum + D - 1
        ok = z3.And(days * 86400 + H * 3600 + MI * 60 + S - O == T, M >= 1, M <= 12, D >= 1, D <= 31)
        return SymbolicBool(ok)


def dr_date(t: int, k: int) -> bool:
    """
    pre: TMIN <= t <= TMAX
    pre: -48 <= k <= 56
    post: _
    """
    mtime.set_offset(k)
    d = dates.DirectoryRecordDate()
    d.new(t)
    ok = decode_eq(d.years_since_1900 + 1900, d.month, d.day_of_month, d.hour, d.minute, d.second, 900 * d.gmtoffset, t)
    rec = d.record()
    ok = ok & (len(rec) == 7) & (rec[0] == d.years_since_1900) & (rec[1] == d.month) & (rec[2] == d.day_of_month) & (rec[3] == d.hour)
    ok = ok & (rec[4] == d.minute) & (rec[5] == d.second) & ((rec[6] == d.gmtoffset) | (rec[6] == d.gmtoffset + 256)) & (d.gmtoffset == k)
    return h.post(ok)


def vd_date(t: int, k: int) -> bool:
    """
    pre: TMIN <= t <= TMAX
    pre: -48 <= k <= 56
    post: _
    """
    mtime.set_offset(k)
    d = dates.VolumeDescriptorDate()
    d.new(mtime.Instant(t) if h.SYM else t)
    ok = decode_eq(d.year, d.month, d.dayofmonth, d.hour, d.minute, d.second, 900 * d.gmtoffset, t)
    rec = d.record()
    ok = ok & (len(rec) == 17) & ((rec[16] == d.gmtoffset) | (rec[16] == d.gmtoffset + 256)) & (d.hundredthsofsecond == 0)
    return h.post(ok)


def tf_record(t: int, k: int) -> bool:
    """
    pre: TMIN <= t <= TMAX
    pre: -48 <= k <= 56
    post: _
    """
    flags = int(h.P.get('flags', 0x0e))     # concrete per obligation (bit tests on a symbolic int realise under CrossHair)
    mtime.set_offset(k)
    r = rockridge.RRTFRecord()
    r.new(flags, mtime.Instant(t) if (h.SYM and flags & 0x80) else t)
    ok = True
    n = 0
    for i, name in enumerate(r.FIELDNAMES):
        if flags & (1 << i):
            d = getattr(r, name)
            if flags & 0x80:
                ok = ok & decode_eq(d.year, d.month, d.dayofmonth, d.hour, d.minute, d.second, 900 * d.gmtoffset, t)
            else:
                ok = ok & decode_eq(d.years_since_1900 + 1900, d.month, d.day_of_month, d.hour, d.minute, d.second, 900 * d.gmtoffset, t)
            n += 1
    rec = r.record()
    ok = ok & (len(rec) == 5 + (17 if flags & 0x80 else 7) * n) & (rec[4] == flags)
    return h.post(ok)


def udf_ts(t: int, k: int) -> bool:
    """
    pre: TMIN <= t <= TMAX
    pre: -48 <= k <= 56
    post: _
    """
    mtime.set_offset(k)
    u = udf.UDFTimestamp()
    u.new(t)
    # ECMA-167 1/7.3.1: bits 0-11 of TypeAndTimezone = offset from UTC in MINUTES (two's complement), type 1 = local time
    ok = decode_eq(u.year, u.month, u.day, u.hour, u.minute, u.second, 60 * u.tz, t) & (u.timetype == 1)
    ok = ok & (-1440 <= u.tz) & (u.tz <= 1440)
    return h.post(ok)


def dr_roundtrip(b0: int, b1: int, b2: int, b3: int, b4: int, b5: int, b6: int) -> bool:
    """
    pre: 0 <= b0 <= 255 and 0 <= b1 <= 255 and 0 <= b2 <= 255 and 0 <= b3 <= 255 and 0 <= b4 <= 255 and 0 <= b5 <= 255 and 0 <= b6 <= 255
    post: _
    """
    raw = bytes([b0, b1, b2, b3, b4, b5, b6])
    d = dates.DirectoryRecordDate()
    d.parse(raw)
    return h.post(d.record() == raw)


def udf_roundtrip(tz: int, y: int, mo: int, d: int, hh: int, mi: int, s: int, cs: int) -> bool:
    """
    pre: (TZLO <= tz <= TZHI) or tz == -2047 or tz == -1440 or tz == 1440
    pre: 1 <= y <= 9999 and 1 <= mo <= 12 and 1 <= d <= 31 and 0 <= hh <= 23 and 0 <= mi <= 59 and 0 <= s <= 59 and 0 <= cs <= 99
    post: _
    """
    u = udf.UDFTimestamp()
    u.new(100000)
    u.tz, u.year, u.month, u.day, u.hour, u.minute, u.second, u.centiseconds = tz, y, mo, d, hh, mi, s, cs
    raw = u.record()
    v = udf.UDFTimestamp()
    v.parse(raw)
    ok = (v.tz == tz) & (v.year == y) & (v.month == mo) & (v.day == d) & (v.hour == hh) & (v.minute == mi) & (v.second == s) & (v.timetype == 1)
    return h.post(ok & (v.record() == raw))


META = {
    'validate': ['struct_model_vs_struct', 'time_model_vs_time'],
    'explanation': 'C19: the real new() of every date class under a civil-time model of gmtime/localtime in which the zone offset is an ARBITRARY '
                   'multiple of 15 minutes per instant; the recorded fields are decoded by an independent reference (one z3 formula) that must give back '
                   'the instant.  ECMA-119 offsets are in 15-minute units; the ECMA-167 timestamp zone field is in minutes.',
    'assumptions': ['instants 1970-01-01T14:00Z .. 2099-12-31T10:00Z (so that local time stays inside 1970..2099); whole seconds',
                    'offsets -12h..+14h in 15-minute steps, arbitrary per instant (over-approximates DST and every tz database with such offsets)',
                    'the sixteen digits of the 17-byte volume date are rendered by C strftime from the same broken-down time: outside the solver '
                    'claim (compared concretely in the model validation only); its numeric fields and offset byte are inside'],
}

MANIFEST = {
    'text': 'Bounded symbolic check of the real timestamp constructors and of parse/record identity: z3 decides for ALL instants in 1970..2099 and ALL '
            '15-minute offsets in -12h..+14h that the recorded local fields plus recorded offset decode (independent reference) to the original instant.',
    'note': 'Trusted: CrossHair, z3, M_time (validated against time.gmtime on 6000 instants and time.localtime under 12 TZ settings at every run), M_struct.',
    'technique': 'symbolic execution of real date constructors (CrossHair + z3) under a non-forking civil-time model; instant and zone offset symbolic',
}


def obligations(tier):
    F = ['utils.gmtoffset_from_tm']
    obs = [
        {'name': 'C19.a/DirectoryRecordDate', 'module': __name__, 'func': 'dr_date', 'functions': F + ['DirectoryRecordDate.new', 'DirectoryRecordDate.record'],
         'samples': [(1000000000, 4), (946684799, -48), (68169600, 56)]},
        {'name': 'C19.a/VolumeDescriptorDate', 'module': __name__, 'func': 'vd_date', 'functions': F + ['VolumeDescriptorDate.new', 'VolumeDescriptorDate.record'],
         'samples': [(1000000000, 4)]},
    ] + [
        {'name': 'C19.a/RRTFRecord/flags%02x' % fl, 'module': __name__, 'func': 'tf_record', 'params': {'flags': fl},
         'functions': F + ['RRTFRecord.new', 'RRTFRecord.record', 'DirectoryRecordDate.new', 'VolumeDescriptorDate.new'],
         'samples': [(1000000000, 4)]} for fl in ((0x0e, 0x81) if tier == 'quick' else (0x0e, 0x81, 0x7f, 0x01, 0x40, 0xff))
    ] + [
        {'name': 'C19.a/UDFTimestamp', 'module': __name__, 'func': 'udf_ts', 'functions': F + ['UDFTimestamp.new'], 'samples': [(1000000000, 4)]},
        {'name': 'C19.b/DirectoryRecordDate_roundtrip', 'module': __name__, 'func': 'dr_roundtrip', 'functions': ['DirectoryRecordDate.parse', 'DirectoryRecordDate.record'],
         'bounds': 'all 2^56 seven-byte values'},
        {'name': 'C19.b/UDFTimestamp_roundtrip', 'module': __name__, 'func': 'udf_roundtrip', 'functions': ['UDFTimestamp.record', 'UDFTimestamp.parse'],
         'params': {'tzlo': -130, 'tzhi': 130} if tier == 'quick' else {},
         'bounds': ('tz in [-130,130] + {-2047,-1440,1440}' if tier == 'quick' else 'tz in [-1440,1440] or -2047') + '; all valid field values (the 12-bit zone packing realises tz: enumerated exhaustively by the engine)'},
    ]
    for o in obs:
        o.setdefault('bounds', 'all instants t in [50400, 4102394399] (1970..2099), all offsets k in [-48, 56] x 15 min')
        o['cond_timeout'] = 900
        o['path_timeout'] = 300
        o['stubs'] = ['M_time', 'M_struct', 'strftime digits constant under CrossHair']
    return obs
