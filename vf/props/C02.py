"""C02 Editing an existing image preserves everything that was not edited (DESIGN section 2, C02)."""
from vf import h, skel, view
from vf.skel import fkw, dkw
import pycdlib

h.install_struct_model()
h.stub_udf_crc()
h.stub_progress()

CFG = h.P.get('cfg') or skel.cfg_of()
MAXLEN = h.P.get('maxlen', 6144)
EDIT = h.P.get('edit', 'rm_file')
SETL0 = h.P.get('setl0')
FIXED = h.P.get('fixed')          # optional: [l1, l2] concrete (only l0 symbolic) to bound the path count on UDF images


def _gen0(c, L, fp):
    iso = skel.new_iso(c)
    iso.add_fp(fp, L[0], **fkw(c, 'AAA'))
    iso.add_directory(**dkw(c, 'DIR1'))
    iso.add_fp(fp, L[1], **fkw(c, 'BBB'))
    iso.add_fp(fp, L[2], **fkw(c, 'CCC', '/DIR1'))
    iso.add_hard_link(iso_old_path='/BBB.;1', iso_new_path='/DIR1/LNK.;1', rr_name='lnk' if c['rr'] else None)
    if c['udf']:
        iso.add_hard_link(iso_old_path='/BBB.;1', udf_new_path='/dir1/ulnk')
    return iso


def _reopen(iso):
    out = h.OutFP()
    iso.write_fp(out, blocksize=1 << 40)
    img = h.ImageFP(out)
    iso2 = pycdlib.PyCdlib()
    iso2.open_fp(img)
    return iso2, out


def _lens(v, ns='iso_path'):
    return dict((e[1], e[3]) for e in v if e[0] == ns and e[2] == 'file')


def open_edit(l0: int, l1: int, l2: int) -> bool:
    """
    pre: 0 <= l0 <= MAXLEN and 0 <= l1 <= MAXLEN and 0 <= l2 <= MAXLEN
    post: _
    """
    c = CFG
    if FIXED:
        l1, l2 = FIXED if len(FIXED) == 2 else (l1, FIXED[0])
    if SETL0 and not (l0 == SETL0[0] or l0 == SETL0[1] or l0 == SETL0[2] or l0 == SETL0[3]):
        return True        # UDF images: l0 ranges over a 4-element set (enumerated by the solver), see bounds
    fp = h.InFP()
    L = [l0, l1, l2]
    g0 = _gen0(c, L, fp)
    iso, _out = _reopen(g0)
    # ---- one edit on the re-opened image
    expect = {'/AAA.;1': l0, '/BBB.;1': l1, '/DIR1/CCC.;1': l2, '/DIR1/LNK.;1': l1}
    if EDIT == 'rm_file':
        iso.rm_file(iso_path='/AAA.;1')
        del expect['/AAA.;1']
    elif EDIT == 'rm_link':
        iso.rm_hard_link(iso_path='/DIR1/LNK.;1')
        del expect['/DIR1/LNK.;1']
    elif EDIT == 'rm_udf_link':
        iso.rm_hard_link(udf_path='/dir1/ulnk')
    elif EDIT == 'add_fp':
        iso.add_fp(fp, l0, **fkw(c, 'NEW'))
        expect['/NEW.;1'] = l0
    elif EDIT == 'add_long':
        kw = fkw(c, 'NEWLONG', rrname='newlong' + 'n' * 190)
        iso.add_fp(fp, l0, **kw)
        expect['/NEWLONG.;1'] = l0
    elif EDIT == 'add_udf_link':
        iso.add_hard_link(iso_old_path='/AAA.;1', udf_new_path='/dir1/alnk')
    elif EDIT == 'rm_dir':
        iso.rm_file(iso_path='/DIR1/CCC.;1')
        iso.rm_hard_link(iso_path='/DIR1/LNK.;1')
        if c['udf']:
            iso.rm_hard_link(udf_path='/dir1/ulnk')
        iso.rm_directory(**dkw(c, 'DIR1'))
        del expect['/DIR1/CCC.;1'], expect['/DIR1/LNK.;1']
    iso.force_consistency()
    ok = skel.spans_ok(iso, skel.collect_spans(iso))
    got = _lens(view.view(iso))
    if sorted(got) != sorted(expect):
        return False
    for p in expect:
        ok = ok & (got[p] == expect[p])
    # untouched non-empty files are still read from where the ORIGINAL image stored them
    orig = dict((e[1], e[4]) for e in view.view(g0) if e[0] == 'iso_path' and e[2] == 'file')
    for e in view.view(iso):
        if e[0] == 'iso_path' and e[2] == 'file' and e[1] in orig and e[4] is not None and bool(e[3] != 0):
            if e[4].original_data_location == e[4].DATA_ON_ORIGINAL_ISO:
                ok = ok & (e[4].orig_extent_loc == orig[e[1]].extent_location())
    # second generation: the edited image is written and opened again and shows the same view
    iso3, _o = _reopen(iso)
    ok = ok & view.same_view(view.view(iso), view.view(iso3), extents=True)
    return h.post(ok)


def eltorito_edit(l0: int) -> bool:
    """
    pre: 1 <= l0 <= MAXLEN
    post: _
    """
    # an El Torito image is re-opened (boot entries re-linked by the parser); then the boot file's only directory name is hidden
    # (rm_hard_link) / an unrelated file is removed: the boot image must stay alive and the allocation exact, two generations
    c = CFG
    fp = skel.BootFP()
    g0 = skel.new_iso(c)
    g0.add_fp(fp, l0, **fkw(c, 'BOOT'))
    g0.add_fp(fp, 2049, **fkw(c, 'AAA'))
    g0.add_eltorito('/BOOT.;1', bootcatfile='/BOOT.CAT;1', rr_bootcatname='boot.cat' if c['rr'] else None,
                    joliet_bootcatfile='/boot.cat' if c['joliet'] else None, udf_bootcatfile='/boot.cat' if c['udf'] else None)
    iso, _out = _reopen(g0)
    if EDIT == 'hide_boot':
        iso.rm_hard_link(iso_path='/BOOT.;1')
        if c['joliet']:
            iso.rm_hard_link(joliet_path='/boot')
        if c['udf']:
            iso.rm_hard_link(udf_path='/boot')
    else:
        iso.rm_file(iso_path='/AAA.;1')
    iso.force_consistency()
    ok = skel.spans_ok(iso, skel.collect_spans(iso))
    cat = iso.eltorito_boot_catalog
    ok = ok & (cat.initial_entry.inode.get_data_length() == l0) & (cat.initial_entry.load_rba == cat.initial_entry.inode.extent_location())
    iso3, _o = _reopen(iso)
    cat3 = iso3.eltorito_boot_catalog
    ok = ok & (cat3.initial_entry.load_rba == cat.initial_entry.load_rba) & (iso3.pvd.space_size == iso.pvd.space_size)
    return h.post(ok)


def empty_files(l0: int) -> bool:
    """
    pre: 0 <= l0 <= MAXLEN
    post: _
    """
    # several EMPTY files (and one of symbolic length l0, 0 included): after a re-open, removing one of them must not touch the others
    c = CFG
    fp = h.InFP()
    iso = skel.new_iso(c)
    iso.add_fp(fp, 0, **fkw(c, 'EMPTY1'))
    iso.add_fp(fp, 0, **fkw(c, 'EMPTY2'))
    iso.add_fp(fp, l0, **fkw(c, 'AAA'))
    iso, _out = _reopen(iso)
    iso.rm_file(iso_path='/EMPTY1.;1')
    iso.force_consistency()
    got = _lens(view.view(iso))
    if sorted(got) != ['/AAA.;1', '/EMPTY2.;1']:
        return False
    ok = (got['/AAA.;1'] == l0) & (got['/EMPTY2.;1'] == 0) & skel.spans_ok(iso, skel.collect_spans(iso))
    iso3, _o = _reopen(iso)
    got3 = _lens(view.view(iso3))
    ok = ok & (sorted(got3) == ['/AAA.;1', '/EMPTY2.;1'])
    return h.post(ok)


META = {
    'validate': ['struct_model_vs_struct', 'fpmodel_vs_bytesio'],
    'explanation': 'C02: generation 0 is built by the real API with symbolic lengths, written by the real writer, re-opened by the real parser (parse-time '
                   'state: inode sharing by extent, UDF link counters, tracked continuation blocks); one real edit; space accounting must stay exact, the view '
                   'must be the original plus exactly that edit, untouched data must still be read from the original extents; generation 2 re-opens to the same view.',
    'assumptions': ['two generations are executed; any number of generations is outside', 'lengths <= 3 sectors (re-open bound of DESIGN C01.b)',
                    'UDF configurations: only one length symbolic (others 0 and 2049) to bound the number of paths',
                    'the vendored foreign-image corpus is concrete input: nothing to quantify, outside'],
}

MANIFEST = {
    'text': 'Bounded symbolic model checking of open-then-edit: z3 decides for all file lengths in range (0 included) that after real write -> real open -> one '
            'real edit the allocation is still sound and exact, the API view is the original plus exactly the edit, carried-over data points at the original '
            'extents, and the next generation re-opens to the same view.',
    'note': 'Bounded by the generation-0 history, the edit list, configurations, lengths <= 6144, two generations. Trusted: CrossHair, z3, M_struct/M_out/M_image.',
    'technique': 'symbolic execution of real write_fp/open_fp/edit code (CrossHair + z3) on a re-opened symbolic-size image',
}


def obligations(tier):
    quick = tier == 'quick'
    obs = []
    plain = [skel.cfg_of(3, None, None, False, False), skel.cfg_of(3, 3, '1.09', False, False)]
    udfc = [skel.cfg_of(3, None, None, True, False)] if quick else [skel.cfg_of(3, None, None, True, False), skel.cfg_of(3, 3, '1.09', True, False)]
    F = ['PyCdlib.open_fp', 'PyCdlib._walk_directories', 'PyCdlib._walk_udf_directories', 'PyCdlib.rm_file', 'PyCdlib.rm_hard_link', 'PyCdlib.add_fp',
         'PyCdlib.add_hard_link', 'PyCdlib.rm_directory', 'PyCdlib._rm_dr_link', 'PyCdlib._rm_udf_link', 'PyCdlib._rm_file_inodes', 'Inode.parse', 'PyCdlib.write_fp']
    for c in plain:
        for ed in ((['rm_file', 'add_fp'] if quick else ['rm_file', 'rm_link', 'add_fp', 'rm_dir']) + (['add_long'] if c['rr'] else [])):
            params = {'cfg': c, 'edit': ed}
            b = '3 lengths in [0,6144]'
            # measured (thorough run, 16 busy cores): three symbolic lengths confirm in 13-37 min on the plain configuration and do NOT
            # exhaust in 50 min with Joliet + Rock Ridge (each path re-parses both trees): that configuration keeps one symbolic length
            if quick or c['joliet']:
                params['fixed'] = [0, 2049]
                b = 'l0 in [0,6144], l1 = 0, l2 = 2049  (write+open+edit+write+open costs 5-12 s per path: one symbolic length in the quick tier and with Joliet+Rock Ridge, three on the plain configuration in thorough)'
            obs.append({'name': 'C02.b/%s/%s' % (ed, skel.cfg_name(c)), 'module': __name__, 'func': 'open_edit', 'params': params,
                        'cond_timeout': 3000, 'path_timeout': 400, 'bounds': 'gen-0 history (3 files, directory, hard link); edit %s; config %s; %s' % (ed, skel.cfg_name(c), b),
                        'functions': F, 'samples': [(0, 2048, 2049)], 'stubs': ['M_struct', 'M_out', 'M_image', 'M_rand', 'constant clock']})
        obs.append({'name': 'C02.b/empty_files/%s' % skel.cfg_name(c), 'module': __name__, 'func': 'empty_files', 'params': {'cfg': c},
                    'cond_timeout': 1200, 'path_timeout': 300, 'bounds': 'two empty files + one of length in [0,6144]; rm_file of one empty file after re-open; config %s' % skel.cfg_name(c),
                    'functions': F, 'samples': [(0,), (5,)], 'stubs': ['M_struct', 'M_out', 'M_image']})
    for c in plain:
        for ed in ('hide_boot', 'rm_other'):
            obs.append({'name': 'C02.b/eltorito_%s/%s' % (ed, skel.cfg_name(c)), 'module': __name__, 'func': 'eltorito_edit', 'params': {'cfg': c, 'edit': ed},
                        'cond_timeout': 1500, 'path_timeout': 300,
                        'bounds': 'El Torito image with a boot file of length in [1,6144], re-opened; edit %s; config %s' % (ed, skel.cfg_name(c)),
                        'functions': F + ['PyCdlib._link_eltorito', 'PyCdlib._check_inode_against_eltorito'], 'samples': [(1,), (2049,)],
                        'stubs': ['M_struct', 'M_out', 'M_image']})
    for c in udfc:
        for ed in ('rm_udf_link', 'add_udf_link', 'rm_file'):
            obs.append({'name': 'C02.b/%s/%s' % (ed, skel.cfg_name(c)), 'module': __name__, 'func': 'open_edit',
                        'params': {'cfg': c, 'edit': ed, 'fixed': [0, 2049], 'setl0': [0, 1, 2048, 2049]},
                        'cond_timeout': 2400, 'path_timeout': 400,
                        'bounds': 'gen-0 history with UDF links; edit %s; config %s; l0 in {0, 1, 2048, 2049} (set enumerated by the solver), other lengths 0 and 2049' % (ed, skel.cfg_name(c)),
                        'functions': F, 'samples': [(1, 0, 0)], 'stubs': ['M_struct', 'M_out', 'M_image', 'UDF CRC/checksum constant', 'file content reads as zero bytes']})
    return obs
