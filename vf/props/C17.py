"""C17 In-place modification touches only what it must (DESIGN section 2, C17)."""
import io

from vf import h, skel
from vf.skel import fkw, dkw

h.fix_env()
h.install_struct_model()
h.stub_udf_crc()
import pycdlib  # noqa: E402
from pycdlib import pycdlibexception, dr as drmod, udf as udfmod  # noqa: E402

CFG = h.P.get('cfg') or skel.cfg_of()
OLD = int(h.P.get('old', 2049))
TARGET = h.P.get('target', 'deep')
NFILL = int(h.P.get('nfill', 20 if CFG['rr'] else 50))    # enough records for a two-sector directory (Rock Ridge records are ~120 bytes)


class RWImage:
    """the opened image file (mode r+b): concrete content, reads as BytesIO, every write logged as (start, end, data)"""
    mode = 'r+b'

    def __init__(self, data):
        self.data = data
        self.pos = 0
        self.writes = []

    def seek(self, off, whence=0):
        self.pos = off if whence == 0 else (self.pos + off if whence == 1 else len(self.data) + off)
        return self.pos

    def tell(self):
        return self.pos

    def read(self, n=-1):
        s = self.pos
        e = len(self.data) if (n is None or n < 0) else min(len(self.data), s + n)
        if e < s:
            e = s
        self.pos = e
        return self.data[s:e]

    def write(self, d):
        n = len(d)
        if h.concrete(n) and n == 0:
            return 0
        self.writes.append((self.pos, self.pos + n, d))
        self.pos += n
        return n


def _gen0(c):
    """a concrete image: a directory whose records span two sectors, the target deep in it, hard links under names of other lengths"""
    iso = skel.new_iso(c)
    iso.add_directory(**dkw(c, 'BIG'))
    for i in range(NFILL):
        iso.add_fp(io.BytesIO(b'f' * 10), 10, **fkw(c, 'F%03d' % i, '/BIG'))
    iso.add_fp(io.BytesIO(b't' * OLD), OLD, **fkw(c, 'TARGET', '/BIG'))       # sorts after the F* entries: second sector of /BIG
    iso.add_fp(io.BytesIO(b'r' * 100), 100, **fkw(c, 'ROOTFILE'))
    iso.add_hard_link(iso_old_path='/BIG/TARGET.;1', iso_new_path='/LONGERLINKNAME.;1' if c['il'] > 1 else '/LNK.;1', rr_name='link' if c['rr'] else None)
    out = io.BytesIO()
    iso.write_fp(out)
    iso.close()
    return out.getvalue()


IMG0 = _gen0(CFG)


def _find_records(img, ident_variants):
    """independent location of every directory record whose identifier is one of ident_variants: scan all directory sectors reachable from
    the volume descriptors (plain byte arithmetic, no pycdlib)"""
    found = []
    for vd_sector in range(16, 32):
        vd = img[vd_sector * 2048:(vd_sector + 1) * 2048]
        if vd[0] == 255:
            break
        if vd[0] not in (1, 2):
            continue
        root_ext = int.from_bytes(vd[158:162], 'little')
        root_len = int.from_bytes(vd[166:170], 'little')
        todo = [(root_ext, root_len)]
        seen = set()
        while todo:
            ext, ln = todo.pop()
            if ext in seen:
                continue
            seen.add(ext)
            off = ext * 2048
            end = off + ln
            while off < end:
                l = img[off]
                if l == 0:
                    off = (off // 2048 + 1) * 2048
                    continue
                fl = img[off + 25]
                nlen = img[off + 32]
                ident = img[off + 33:off + 33 + nlen]
                cext = int.from_bytes(img[off + 2:off + 6], 'little')
                clen = int.from_bytes(img[off + 10:off + 14], 'little')
                if fl & 2 and ident not in (b'\x00', b'\x01'):
                    todo.append((cext, clen))
                if ident in ident_variants:
                    found.append((off, l))
                off += l
    return found


def modify(newlen: int) -> bool:
    """
    pre: 0 <= newlen <= 6144
    post: _
    """
    c = CFG
    img = RWImage(IMG0)
    iso = pycdlib.PyCdlib()
    iso.open_fp(img)
    path = '/BIG/TARGET.;1' if TARGET == 'deep' else ('/ROOTFILE.;1' if TARGET == 'root' else '/BIG')
    old = OLD if TARGET == 'deep' else 100
    rec = iso.get_record(iso_path=path)
    fext = rec.extent_location() if TARGET != 'dir' else 0
    img.writes.clear()
    same = (h.cdiv(newlen, 2048) == h.cdiv(old, 2048))
    try:
        iso.modify_file_in_place(h.InFP('new'), newlen, path, rr_name=None)
    except pycdlibexception.PyCdlibInvalidInput:
        # refused: must be because the sector count changes or the target is a directory, and NOTHING may have been written
        return h.post(((not same) | (TARGET == 'dir')) & (len(img.writes) == 0))
    if TARGET == 'dir' or not same:
        return False
    # allowed regions
    allowed = []
    for vd in iso.pvds + iso.svds + ([iso.enhanced_vd] if iso.enhanced_vd is not None else []):
        allowed.append((vd.extent_location() * 2048, vd.extent_location() * 2048 + 2048))
    allowed.append((fext * 2048, fext * 2048 + h.cdiv(old, 2048) * 2048))
    names = {b'TARGET.;1', b'LONGERLINKNAME.;1', b'LNK.;1', 'target'.encode('utf-16_be'), b'ROOTFILE.;1', 'rootfile'.encode('utf-16_be')}
    if TARGET == 'root':
        names = {b'ROOTFILE.;1', 'rootfile'.encode('utf-16_be')}
    else:
        names -= {b'ROOTFILE.;1', 'rootfile'.encode('utf-16_be')}
    recs = _find_records(IMG0, names)
    for (off, l) in recs:
        allowed.append((off, off + l))
    if iso._has_udf:
        for r, _pv in rec.inode.linked_records:
            if isinstance(r, udfmod.UDFFileEntry):
                allowed.append((r.extent_location() * 2048, r.extent_location() * 2048 + 2048))
    ok = True
    written = {}
    for (lo, hi, d) in img.writes:
        inside = False
        for (a, b) in allowed:
            inside = inside | ((lo >= a) & (hi <= b))
        ok = ok & inside
        for (off, l) in recs:
            if h.concrete(lo) and lo == off:
                written[off] = True
                # the rewritten record carries the new length (both byte orders) at the place where the record really is
                if not isinstance(d, h.Span):
                    ok = ok & (len(d) == l)
                    ok = ok & (d[10] + 256 * d[11] + 65536 * d[12] + 16777216 * d[13] == newlen)
                    ok = ok & (d[17] + 256 * d[16] + 65536 * d[15] + 16777216 * d[14] == newlen)
    # every record naming the file carries the new length afterwards: it was rewritten, or it already said so (zero-length files are not
    # re-linked by open_fp, so a 0 -> 0 modification rewrites only the addressed record; the others already record 0)
    for (off, l) in recs:
        if off not in written:
            ok = ok & (old == newlen)
    return h.post(ok)


META = {
    'validate': ['struct_model_vs_struct'],
    'explanation': 'C17: a concrete image (a two-sector directory, the target in its second sector, a hard link under a name of another length, every '
                   'namespace of the configuration) is written by the real writer and opened read-write on a logging file model; modify_file_in_place runs '
                   'with a SYMBOLIC new length; every write must fall in the file\'s own sectors, the volume descriptors, UDF file entries, or exactly on a '
                   'directory record of the target found by an independent scan of the original bytes, and must carry the new length.',
    'assumptions': ['old length concrete per obligation ({0, 1, 2048, 2049, 4096}), new length symbolic in [0, 6144]', 'one image layout per configuration',
                    'new CONTENT is not materialised (length-only); the stale tail left in the last sector by utils.zero_pad is not examined'],
}

MANIFEST = {
    'text': 'Bounded symbolic check of in-place modification: for all new lengths z3 decides refusal exactly when the sector count changes or the target is a '
            'directory (with no write issued), and otherwise that every write lands inside the allowed regions, in particular exactly on the target\'s '
            'directory records as located by an independent scan, with the new length encoded in both byte orders.',
    'note': 'Bounded by the image layouts, old lengths and new length range listed per obligation. Trusted: CrossHair, z3, M_struct, logging file model.',
    'technique': 'symbolic execution of real modify_file_in_place (CrossHair + z3) with symbolic new length against an independent record locator',
}


def obligations(tier):
    quick = tier == 'quick'
    obs = []
    # UDF configurations are outside the claim: measured > 100 paths at ~9 s each (not exhausted in 900 s)
    cfgs = [skel.cfg_of(3, None, None, False, False), skel.cfg_of(3, 3, None, False, False), skel.cfg_of(3, 3, '1.09', False, False)]
    if not quick:
        cfgs += [skel.cfg_of(1, None, None, False, False), skel.cfg_of(3, None, '1.12', False, True), skel.cfg_of(4, 3, None, False, False)]
    for c in cfgs:
        for old in ((2049, 2048) if quick else (0, 1, 2048, 2049, 4096)):
            for tgt in (('deep',) if quick else ('deep', 'root')):
                obs.append({'name': 'C17.a/%s/old%d/%s' % (tgt, old, skel.cfg_name(c)), 'module': __name__, 'func': 'modify',
                            'params': {'cfg': c, 'old': old, 'target': tgt}, 'cond_timeout': 900, 'path_timeout': 200,
                            'bounds': 'image with a 2-sector directory (%d fillers) and a hard link; target %s of old length %d; new length in [0,6144]; config %s' % (NFILL, tgt, old, skel.cfg_name(c)),
                            'functions': ['PyCdlib.modify_file_in_place', 'PyCdlib.open_fp', 'DirectoryRecord.track_child', 'DirectoryRecord.record',
                                          'UDFFileEntry.set_data_length', 'utils.copy_data', 'utils.zero_pad', 'Inode.update_fp'],
                            'samples': [(old,), (max(0, old - 1),), (old + 2048,)], 'stubs': ['M_struct', 'logging read/write image model', 'Span new data']})
        obs.append({'name': 'C17.a/dir/%s' % skel.cfg_name(c), 'module': __name__, 'func': 'modify', 'params': {'cfg': c, 'target': 'dir'},
                    'cond_timeout': 600, 'path_timeout': 100, 'bounds': 'target is a directory; new length in [0,6144]; config %s' % skel.cfg_name(c),
                    'functions': ['PyCdlib.modify_file_in_place'], 'samples': [(2048,)]})
    from vf.props import packing
    obs += packing.obligations_for('C17.b', tier)
    return obs
