"""C18 Derived names are always legal: mangling is total and level-correct (DESIGN section 2, C18) -- engine E3."""
import os
import time

import z3

from vf import bvx, strx
from vf.bvx import BV, W, lift
from vf.strx import Sym

REPO = os.environ.get('VF_REPO', '/repo')


def _load():
    from pycdlib import utils, pycdlibexception
    from pycdlib import pycdlib as pm
    uns = strx.load_functions(utils, {'truncate_basename', 'mangle_file_for_iso9660', 'mangle_dir_for_iso9660'})
    cns = strx.load_functions(pm, {'_check_d1_characters', '_split_iso9660_filename', '_check_iso9660_filename', '_check_iso9660_directory'},
                              extra={'_allowed_d1_characters': strx.CharSet(pm._allowed_d1_characters),
                                     'float': lambda v: (1 << 50) if v == 'inf' else float(v)})
    return uns, cns, pycdlibexception


def _len_t(x):
    return x._len_t() if isinstance(x, Sym) else z3.IntVal(len(x))


def _all_legal_t(x):
    if not isinstance(x, Sym):
        return z3.BoolVal(all(ch in strx.LEGAL for ch in x))
    a = x.alpha
    return z3.And([z3.Implies(g, a.ite(c, a.attr['legal'])) for g, c, _p in x.slots]) if x.slots else z3.BoolVal(True)


def _replay_mangle(name, level, is_dir):
    """the real functions on a concrete string: returns (violated?, detail)"""
    from pycdlib import utils, pycdlibexception
    from pycdlib import pycdlib as pm
    try:
        if is_dir:
            out = utils.mangle_dir_for_iso9660(name, level)
            ident = out.encode('utf-8')
            pm._check_iso9660_directory(ident, level)
            lim = {1: 8}.get(level, 31)
            if level < 4 and len(out) > lim:
                return True, 'directory identifier %r longer than %d' % (out, lim)
        else:
            base, ext = utils.mangle_file_for_iso9660(name, level)
            ident = '.'.join([base, ext]).encode('utf-8')
            pm._check_iso9660_filename(ident, level)
            if level == 1 and (len(base) > 8 or len(ext) - 2 > 3):
                return True, 'identifier %r exceeds 8.3' % ident
            if level in (2, 3) and (len(base) > 30 or len(ext) - 2 > 3):
                return True, 'identifier %r exceeds 30/3' % ident
    except Exception as e:  # noqa
        return True, '%s: %s (input %r)' % (type(e).__name__, e, name)
    return False, repr(ident)


def mangle_legal(params):
    """for EVERY string of exactly n characters (n = 1..N, each n one family of queries) over the class alphabet:
    the real mangler returns; its result obeys the level's length limits AFTER case mapping; the REAL checker accepts it."""
    level = int(params['level'])
    is_dir = bool(params.get('is_dir'))
    N = int(params.get('N', 8))
    use_real = params.get('check', 'real') == 'real'
    prefix = 'A' * int(params.get('prefix', 0))
    uns, cns, exc = _load()
    tot = {'paths': 0, 'solver_calls': 0, 'solver_s': 0.0}
    t0 = time.perf_counter()
    for n in range(int(params.get('nmin', 1)), N + 1):
        def mk():
            s = Sym.fresh(n, 'str', 's')
            if params.get('ascii'):
                a = s.alpha
                for _g, cc, _p in s.slots:
                    bvx.CTX.solver.add(a.ite(cc, [u == 1 for u in a.attr['utf8len']]))
            if n == 1 and not prefix:
                # '.' is the directory self-reference, never a file or directory NAME (path normalisation removes it)
                a = s.alpha
                bvx.CTX.solver.add(z3.Not(a.ite(s.slots[0][1], a.attr['is_dot'])))
            return ((s.lit(prefix) + s) if prefix else s,)

        def fn(s):
            info = {}
            try:
                if is_dir:
                    out = uns['mangle_dir_for_iso9660'](s, level)
                    info['base'], info['ext'] = out, None
                    ident = out
                else:
                    base, ext = uns['mangle_file_for_iso9660'](s, level)
                    info['base'], info['ext'] = base, ext
                    ident = base + '.' + ext if isinstance(base, Sym) else (ext.lit(base) + '.' + ext if isinstance(ext, Sym) else base + '.' + ext)
                if use_real:
                    bident = strx.to_bytes_kind(ident) if isinstance(ident, Sym) else ident.encode('utf-8')
                    if is_dir:
                        cns['_check_iso9660_directory'](bident, level)
                    else:
                        cns['_check_iso9660_filename'](bident, level)
                info['raised'] = None
            except strx.Unsupported:
                raise
            except bvx.Infeasible:
                raise
            except Exception as e:  # noqa   any exception from the real code on this path is a violation
                info['raised'] = '%s: %s' % (type(e).__name__, e)
            return info

        def prop(info, a):
            if info['raised'] is not None:
                return z3.BoolVal(False)
            conds = []
            if level < 4:
                lim = 8 if level == 1 else (31 if is_dir else 30)
                conds.append(_len_t(info['base']) <= lim)
                if info['ext'] is not None:
                    conds.append(_len_t(info['ext']) <= 3 + 2)
                if not use_real:
                    # reference legality of the result (validated against the real checker by the 'real' obligations):
                    # every character a d-character, name or extension non-empty
                    conds.append(_all_legal_t(info['base']))
                    if info['ext'] is not None:
                        body = Sym(info['ext'].slots[:-2], 'str') if isinstance(info['ext'], Sym) else info['ext'][:-2]
                        conds.append(_all_legal_t(body))
                        conds.append(z3.Or(_len_t(info['base']) >= 1, _len_t(body) >= 1))
                    else:
                        conds.append(_len_t(info['base']) >= 1)
            return z3.And(conds) if conds else z3.BoolVal(True)
        r = bvx.explore(fn, mk, prop, xcheck=(1 if (n == min(N, 6) and params.get("xcheck", True)) else 0))
        for k in tot:
            tot[k] += r[k]
        if r['verdict'] != 'confirmed':
            out = dict(r)
            out.update(tot)
            m = out.pop('model', None)
            if r['verdict'] == 'refuted':
                name = prefix + strx.concretize(m, 's', n, 'str')
                bad, detail = _replay_mangle(name, level, is_dir)
                out['cex'] = {'args': [repr(name), repr(level), repr(is_dir)], 'kwargs': {}, 'raw': repr((name, level, is_dir))}
                out['cex_text'] = 'input %r (n=%d)' % (name, n)
                out['replay'] = {'outcome': 'violates' if bad else 'holds', 'detail': detail}
            else:
                out['why'] = str(m)
            out['extra'] = {'n_reached': n}
            return out
    return {'verdict': 'confirmed', 'extra': {'lengths': [1, N], 'classes': strx.str_alphabet().n()}, 'wall_s': round(time.perf_counter() - t0, 1), **tot}


def _legal_input_t(s, level, is_dir, n):
    """reference: the input is ALREADY a legal identifier body for this level, inside the mangler's own length budget"""
    a = s.alpha
    legal = [a.ite(c, a.attr['legal']) for (_g, c, _p) in s.slots]
    dot = [a.ite(c, a.attr['is_dot']) for (_g, c, _p) in s.slots]
    if is_dir:
        lim = 8 if level == 1 else 31
        return z3.And(z3.And(legal), z3.BoolVal(1 <= n <= lim))
    # file: NAME[.EXT] with at most one dot, name/ext of legal characters
    cases = []
    # no dot
    lim = 8 if level == 1 else 30
    cases.append(z3.And(z3.And(legal), z3.BoolVal(1 <= n <= lim)))
    for d in range(n):     # exactly one dot at position d
        nl, el = d, n - d - 1
        if nl > lim or el > 3 or el == 0:
            continue     # ext of length 0 ("NAME.") is rewritten to NAME_ by the mangler: see DESIGN C18 scope note
        cases.append(z3.And([dot[i] if i == d else legal[i] for i in range(n)]))
    return z3.Or(cases)


def mangle_identity(params):
    """for every string of n characters that is ALREADY legal at the level (and within the mangler's length budget):
    the mangled name, without the appended ';1', is the input itself"""
    level = int(params['level'])
    is_dir = bool(params.get('is_dir'))
    N = int(params.get('N', 8))
    uns, cns, exc = _load()
    tot = {'paths': 0, 'solver_calls': 0, 'solver_s': 0.0}
    t0 = time.perf_counter()
    for n in range(1, N + 1):
        def mk():
            return (Sym.fresh(n, 'str', 's'),)

        def fn(s):
            if is_dir:
                return (uns['mangle_dir_for_iso9660'](s, level), None, s)
            base, ext = uns['mangle_file_for_iso9660'](s, level)
            return (base, ext, s)

        def prop(res, a):
            base, ext, s = res
            pre = _legal_input_t(s, level, is_dir, n)
            if is_dir:
                same = strx.identity_t(base, n, s) if isinstance(base, Sym) else z3.BoolVal(False)
            else:
                # joined = base + '.' + ext-without-;1  must equal input; when the input has no dot the ext is ';1' alone
                if isinstance(ext, Sym):
                    extbody = Sym(ext.slots[:-2], 'str')
                    joined = base + '.' + extbody
                    same = strx.identity_t(joined, n, s)
                else:
                    same = z3.And(strx.identity_t(base, n, s), z3.BoolVal(ext == ';1')) if isinstance(base, Sym) else z3.BoolVal(False)
            return z3.Implies(pre, same)
        r = bvx.explore(fn, mk, prop, xcheck=(1 if (n == min(N, 6) and params.get("xcheck", True)) else 0))
        for k in tot:
            tot[k] += r[k]
        if r['verdict'] != 'confirmed':
            out = dict(r)
            out.update(tot)
            m = out.pop('model', None)
            if r['verdict'] == 'refuted':
                from pycdlib import utils
                name = strx.concretize(m, 's', n, 'str')
                if is_dir:
                    got = utils.mangle_dir_for_iso9660(name, level)
                else:
                    b, e = utils.mangle_file_for_iso9660(name, level)
                    got = b + ('.' + e[:-2] if e != ';1' else '')
                out['cex'] = {'args': [repr(name), repr(level), repr(is_dir)], 'kwargs': {}, 'raw': repr((name, level, is_dir))}
                out['cex_text'] = 'input %r' % name
                out['replay'] = {'outcome': 'violates' if got != name else 'holds', 'detail': 'mangled %r -> %r' % (name, got)}
            else:
                out['why'] = str(m)
            return out
    return {'verdict': 'confirmed', 'extra': {'lengths': [1, N]}, 'wall_s': round(time.perf_counter() - t0, 1), **tot}


META = {
    'explanation': 'C18: the real source of utils.truncate_basename / mangle_file_for_iso9660 / mangle_dir_for_iso9660 and of the real checkers '
                   '_check_iso9660_filename/_directory (re-read from /repo each run, literal-receiver joins rewritten) executed on symbolic strings '
                   'whose characters range over an alphabet quotient of ALL Unicode scalar values computed from the running interpreter (37 classes: '
                   'case mappings that lengthen, map to legal/illegal characters, UTF-8 widths ...).',
    'assumptions': ['strings of 1..N characters (N per obligation); the empty string and "." are not file names',
                    'identity claim only for inputs inside the mangler\'s own length budget (8.3 at level 1, 30+3 / 31 at levels 2-3) and with a '
                    'non-empty extension when a dot is present; see DESIGN C18',
                    'alphabet quotient: every primitive (upper, regex class, split, comparison with singleton-class literals) is invariant under it '
                    'by construction; representatives are used to replay'],
}

MANIFEST = {
    'engine': 'strx (E3)',
    'text': 'Solver-decided totality and level-correctness of the name manglers over ALL Unicode strings up to N characters (alphabet quotient), with '
            'the real checker executed symbolically on the result; counterexamples are concretised through class representatives and replayed on the '
            'real functions. Right level: legality is a predicate over all strings, and the failures are Unicode case mappings no example test reaches.',
    'note': 'Bounded by N characters per obligation; trusted: the slot-string primitives of vf/strx.py (validated on representatives), z3.',
    'technique': 'AST-rewritten real source executed on symbolic strings (guarded slots over an alphabet quotient) + z3; replay on real functions',
}


def obligations(tier):
    quick = tier == 'quick'
    obs = []
    F = ['utils.truncate_basename', 'utils.mangle_file_for_iso9660', 'utils.mangle_dir_for_iso9660']
    FC = F + ['_check_iso9660_filename', '_check_iso9660_directory', '_split_iso9660_filename', '_check_d1_characters']

    def add(name, func, params, bounds, funcs):
        obs.append({'name': name, 'engine': 'py', 'module': __name__, 'func': func, 'params': params, 'cond_timeout': 3000,
                    'bounds': bounds, 'functions': funcs,
                    'stubs': ['re.sub/subn, len, literal.join, int, bytearray, float given slot-string meaning (vf/strx.py)']})
    for level in (1, 2, 3):
        for is_dir in (False, True):
            kind = 'dir' if is_dir else 'file'
            nr = 5 if quick else 7
            add('C18.a/legal-real/%s/l%d' % (kind, level), 'mangle_legal', {'level': level, 'is_dir': is_dir, 'N': nr, 'check': 'real'},
                'ALL Unicode strings of 1..%d characters (37-class quotient); level %d %s; REAL checker executed on the result' % (nr, level, kind), FC)
            nf = 10 if quick else 13
            add('C18.a/legal-ref/%s/l%d' % (kind, level), 'mangle_legal', {'level': level, 'is_dir': is_dir, 'N': nf, 'check': 'ref', 'xcheck': False},
                'ALL Unicode strings of 1..%d characters; level %d %s; result checked against the reference legality predicate and length limits' % (nf, level, kind), F)
            # strings that straddle the truncation point: concrete legal prefix + symbolic tail
            cut = 8 if level == 1 else (31 if is_dir else 30)
            pre = max(0, cut - 5)
            nt = 8 if quick else 10
            add('C18.a/legal-ref-cut/%s/l%d' % (kind, level), 'mangle_legal',
                {'level': level, 'is_dir': is_dir, 'N': nt, 'nmin': 2, 'check': 'ref', 'prefix': pre, 'xcheck': False},
                "strings 'A'*%d + s, s ranging over ALL Unicode strings of 2..%d characters (straddles the cut at %d); level %d %s" % (pre, nt, cut, level, kind), F)
            ni = 9 if quick else 12
            add('C18.a/identity/%s/l%d' % (kind, level), 'mangle_identity', {'level': level, 'is_dir': is_dir, 'N': ni},
                'all already-legal strings of 1..%d characters; level %d %s' % (ni, level, kind), F)
    for is_dir in (False, True):
        kind = 'dir' if is_dir else 'file'
        add('C18.a/legal-real/%s/l4' % kind, 'mangle_legal', {'level': 4, 'is_dir': is_dir, 'N': 5 if quick else 7, 'check': 'real', 'ascii': True},
            'ALL ASCII strings of 1..%d characters; level 4 %s; REAL checker on the result (non-ASCII: multi-byte UTF-8 is outside the slot model)' % (5 if quick else 7, kind), FC)
    return obs
