"""C13 Namespace rules (DESIGN section 2, C13)."""
import time

import z3

from vf import bvx, strx
from vf.strx import Sym


def _load():
    from pycdlib import pycdlibexception
    from pycdlib import pycdlib as pm
    cns = strx.load_functions(pm, {'_check_d1_characters', '_split_iso9660_filename', '_check_iso9660_filename', '_check_iso9660_directory',
                                   '_interchange_level_from_filename', '_interchange_level_from_directory'},
                              extra={'_allowed_d1_characters': strx.CharSet(pm._allowed_d1_characters),
                                     'float': lambda v: (1 << 50) if v == 'inf' else float(v)})
    return cns, pycdlibexception


def _ref_file_legal(s, level, n):
    """reference legality written from the library's documentation: NAME[.EXT][;VERSION], d-characters at levels 1-3,
    8.3 at level 1, version 1..32767, name or extension non-empty, exactly one ';' at most"""
    a = s.alpha
    cls = [c for (_g, c, _p) in s.slots]
    legal = [a.ite(c, a.attr['legal']) for c in cls]
    dot = [a.ite(c, a.attr['is_dot']) for c in cls]
    semi = [a.ite(c, a.attr['is_semi']) for c in cls]
    digv = [a.ite(c, [max(d, 0) for d in a.attr['digit']], 'cls') for c in cls]
    isdig = [a.ite(c, [d >= 0 for d in a.attr['digit']]) for c in cls]
    cases = []
    for vpos in list(range(n)) + [None]:          # position of the (single) ';' or None
        body_end = n if vpos is None else vpos
        vconds = []
        if vpos is not None:
            vlen = n - vpos - 1
            vconds.append(semi[vpos])
            vconds += [z3.Not(semi[i]) for i in range(n) if i != vpos]
            if vlen > 0:
                vconds += [isdig[i] for i in range(vpos + 1, n)]
                val = z3.IntVal(0)
                for i in range(vpos + 1, n):
                    val = val * 10 + digv[i]
                vconds.append(z3.And(val >= 1, val <= 32767))
            # an empty version after ';' ('NAME.EXT;') is accepted by the library (version == b'')
        else:
            vconds += [z3.Not(semi[i]) for i in range(n)]
        for dpos in list(range(body_end)) + [None]:     # position of the LAST '.' in the body or None
            conds = list(vconds)
            if dpos is None:
                name_idx, ext_idx = list(range(body_end)), []
                conds += [z3.Not(dot[i]) for i in range(body_end)]
            else:
                name_idx, ext_idx = list(range(dpos)), list(range(dpos + 1, body_end))
                conds.append(dot[dpos])
                conds += [z3.Not(dot[i]) for i in ext_idx]
            if not name_idx and not ext_idx:
                continue
            if level == 1 and (len(name_idx) > 8 or len(ext_idx) > 3):
                continue
            if level < 4:
                conds += [legal[i] for i in name_idx + ext_idx]
            cases.append(z3.And(conds))
    return z3.Or(cases) if cases else z3.BoolVal(False)


def check_filename(params):
    """for EVERY byte string of exactly n bytes (n = 0..N): the real _check_iso9660_filename returns or raises
    PyCdlibInvalidInput (nothing else escapes), and it accepts IFF the reference legality predicate holds"""
    level = int(params['level'])
    N = int(params.get('N', 6))
    cns, exc = _load()
    tot = {'paths': 0, 'solver_calls': 0, 'solver_s': 0.0}
    t0 = time.perf_counter()
    fname = params.get('fn', '_check_iso9660_filename')
    for n in range(0, N + 1):
        def mk():
            return (Sym.fresh(n, 'bytes', 'b') if n else b'',)

        def fn(s):
            try:
                cns[fname](s, level)
                return ('accepted', None, s)
            except exc.PyCdlibInvalidInput:
                return ('refused', None, s)
            except (strx.Unsupported, bvx.Infeasible):
                raise
            except Exception as e:  # noqa
                return ('escaped', '%s: %s' % (type(e).__name__, e), s)

        def prop(res, a):
            kind, _d, s = res
            if kind == 'escaped':
                return z3.BoolVal(False)
            if not isinstance(s, Sym):
                ref = z3.BoolVal(False)       # the empty identifier is never legal
            elif fname == '_check_iso9660_filename':
                ref = _ref_file_legal(s, level, n)
            else:
                al = s.alpha
                lim = 8 if level == 1 else (207 if level in (2, 3) else 10 ** 9)
                ref = z3.And([al.ite(c, al.attr['legal']) for (_g, c, _p) in s.slots] if level < 4 else [z3.BoolVal(True)]) if 1 <= n <= lim else z3.BoolVal(False)
            return ref if kind == 'accepted' else z3.Not(ref)
        r = bvx.explore(fn, mk, prop, xcheck=(1 if n == min(N, 4) else 0))
        for k in tot:
            tot[k] += r[k]
        if r['verdict'] != 'confirmed':
            out = dict(r)
            out.update(tot)
            m = out.pop('model', None)
            if r['verdict'] == 'refuted':
                from pycdlib import pycdlib as pm
                name = strx.concretize(m, 'b', n, 'bytes')
                try:
                    getattr(pm, fname)(name, level)
                    got = 'accepted'
                except exc.PyCdlibInvalidInput:
                    got = 'refused'
                except Exception as e:  # noqa
                    got = 'escaped %s: %s' % (type(e).__name__, e)
                want = _ref_concrete(name, level) if fname == '_check_iso9660_filename' else _ref_dir_concrete(name, level)
                bad = got.startswith('escaped') or (got == 'accepted') != want
                out['cex'] = {'args': [repr(name), repr(level)], 'kwargs': {}, 'raw': repr((name, level))}
                out['cex_text'] = 'identifier %r level %d' % (name, level)
                out['replay'] = {'outcome': 'violates' if bad else 'holds', 'detail': 'real: %s; reference says legal=%s' % (got, want)}
            else:
                out['why'] = str(m)
            return out
    return {'verdict': 'confirmed', 'extra': {'lengths': [0, N], 'byte_classes': strx.bytes_alphabet().n()}, 'wall_s': round(time.perf_counter() - t0, 1), **tot}


def _ref_concrete(name, level):
    """the same reference predicate on a concrete identifier (independent re-implementation for the replay)"""
    LEG = set(b'ABCDEFGHIJKLMNOPQRSTUVWXYZ0123456789_')
    if name.count(b';') > 1:
        return False
    body, version = name, None
    if b';' in name:
        body, version = name.rsplit(b';', 1)
    if version:
        if not all(48 <= ch <= 57 for ch in version) or not (1 <= int(version) <= 32767):
            return False
    if b'.' in body:
        nm, ext = body.rsplit(b'.', 1)
    else:
        nm, ext = body, b''
    if not nm and not ext:
        return False
    if level == 1 and (len(nm) > 8 or len(ext) > 3):
        return False
    if level < 4 and not all(ch in LEG for ch in nm + ext):
        return False
    return True


def _ref_dir_concrete(name, level):
    LEG = set(b'ABCDEFGHIJKLMNOPQRSTUVWXYZ0123456789_')
    lim = 8 if level == 1 else (207 if level in (2, 3) else 10 ** 9)
    if not (1 <= len(name) <= lim):
        return False
    return level == 4 or all(ch in LEG for ch in name)


from vf.props.C13_dup import DUP_RECIPES  # noqa: E402  (CrossHair harness lives in a module without z3 imports: replays run under /venv)


META = {
    'explanation': 'C13.a: the acceptance predicates _check_iso9660_filename / _check_iso9660_directory executed (real source, re-read each run) on '
                   'symbolic byte strings over a 24-class quotient of the 256 byte values (each digit, "_", ".", ";", "/", A-Z, whitespace, sign, other): '
                   'total (only PyCdlibInvalidInput escapes) and equal to a reference legality predicate written from the documented rules.',
    'assumptions': ['byte strings of 0..N bytes; longer identifiers outside the claim (the functions treat positions uniformly)',
                    'the reference predicate encodes: d-characters at levels 1-3, 8.3 at level 1, version 1..32767 or empty, name or extension '
                    'non-empty, at most one ";", directory names 1..8 / 1..207 characters'],
}

MANIFEST = {
    'engine': 'strx (E3) + chx',
    'text': 'Solver-decided totality and exactness of the identifier acceptance predicates over ALL byte strings up to N bytes against a documented-rule '
            'reference; on-disc field fit and duplicate detection by bounded symbolic execution of the real record constructors (where built).',
    'note': 'Bounded by N bytes; trusted: slot-string primitives of vf/strx.py, z3. Joliet/UDF name limits and duplicate detection: see evidence for '
            'what is discharged.',
    'technique': 'AST-rewritten real source on symbolic byte strings (alphabet quotient) + z3; CrossHair for record-field fit',
}


def obligations(tier):
    quick = tier == 'quick'
    obs = []
    N = 7 if quick else 9
    for level in (1, 2, 3, 4):
        obs.append({'name': 'C13.a/filename/l%d' % level, 'engine': 'py', 'module': __name__, 'func': 'check_filename',
                    'params': {'level': level, 'N': N}, 'cond_timeout': 3000,
                    'bounds': 'ALL byte strings of 0..%d bytes (24-class quotient); level %d' % (N, level),
                    'functions': ['_check_iso9660_filename', '_split_iso9660_filename', '_check_d1_characters']})
        obs.append({'name': 'C13.a/directory/l%d' % level, 'engine': 'py', 'module': __name__, 'func': 'check_filename',
                    'params': {'level': level, 'N': 10 if quick else 12, 'fn': '_check_iso9660_directory'}, 'cond_timeout': 3000,
                    'bounds': 'ALL byte strings of 0..%d bytes; level %d' % (10 if quick else 12, level),
                    'functions': ['_check_iso9660_directory', '_check_d1_characters']})
    from vf import skel
    from vf.props import C14
    cfgs = [skel.cfg_of(3, 3, '1.09', True, False)] if quick else [skel.cfg_of(3, 3, '1.09', True, False), skel.cfg_of(1, 1, None, True, True), skel.cfg_of(4, 3, '1.12', True, False)]
    for c in cfgs:
        for name in DUP_RECIPES:
            if not C14.recipes(c)[name][1]:
                continue
            obs.append({'name': 'C13.c/%s/%s' % (name, skel.cfg_name(c)), 'engine': 'chx', 'module': 'vf.props.C13_dup', 'func': 'dup_refused',
                        'params': {'cfg': c, 'recipe': name}, 'cond_timeout': 600, 'path_timeout': 100,
                        'bounds': 'duplicate-name recipe %s on a 3-entry image; config %s; two lengths symbolic' % (name, skel.cfg_name(c)),
                        'functions': ['DirectoryRecord._add_child', 'PyCdlib._add_child_to_dr', 'UDFFileEntry.add_file_ident_desc', 'PyCdlib._add_fp',
                                      'PyCdlib.add_directory', 'PyCdlib.add_hard_link', 'PyCdlib.add_symlink', 'PyCdlib.add_eltorito'],
                        'samples': [(1, 2049)]})
    for nm, fn, params, b in (
            ('dr_fit/file', 'dr_fit', {}, 'directory record of a file, interchange level 4'),
            ('dr_fit/dir', 'dr_fit', {'isdir': True}, 'directory record of a directory, interchange level 4'),
            ('dr_fit/file_xa', 'dr_fit', {'xa': True}, 'directory record of a file with an XA record'),
            ('fid_fit/latin1', 'fid_fit', {}, 'UDF file identifier, Latin-1 name'),
            ('fid_fit/ucs2', 'fid_fit', {'wide': True}, 'UDF file identifier, name needing 16-bit characters'),
            ('fid_fit/dir', 'fid_fit', {'isdir': True}, 'UDF file identifier of a directory')):
        obs.append({'name': 'C13.b/%s' % nm, 'engine': 'chx', 'module': 'vf.props.C13_h', 'func': fn, 'params': params, 'cond_timeout': 600, 'path_timeout': 100,
                    'bounds': '%s; identifier of n bytes/characters for EVERY n in [1, 100000] (content opaque: a length-only object): refused with '
                              'PyCdlibInvalidInput when created, or the computed length is exact and fits its one-byte field.  Rock Ridge records '
                              '(continuation handling) and the name checks of levels 1-3 (C13.a) are outside this obligation' % b,
                    'functions': ['DirectoryRecord._new', 'UDFFileIdentifierDescriptor.new'], 'samples': [(5,), (300,)], 'stubs': ['M_struct', 'length-only identifier objects']})
    return obs
