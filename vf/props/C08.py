"""C08 Rock Ridge fidelity for an independent SUSP/RRIP reader (DESIGN section 2, C08)."""
from vf import skel

META = {
    'validate': ['struct_model_vs_struct'],
    'explanation': 'C08.a: RockRidge.new for a name of a concrete length (swept) with the current record length, file mode, root-record flag and XA skip symbolic; '
                   'an independent SUSP reader (vf/props/C08_h.py: susp_entries) applied to the recorded directory-record entries followed by the continuation '
                   'entries recovers exactly the name and mode, entry lengths add up, CE is last and announces the exact continuation length, the record stays '
                   '<= 254 bytes.  C08.c: the continuation-area allocator from an arbitrary valid block state (inductive step).',
    'assumptions': ['name LENGTH is concretised per obligation (symbolic-length names do not exhaust: measured 20 min); sweep list in the obligations',
                    'symlink targets (SL), relocation (CL/PL/RE) and link counts on whole trees are covered only through the skeleton sk4 in C04/C06 (allocation), '
                    'not by the reference reader: outside this claim', 'allocator: k <= 3 existing entries'],
}

MANIFEST = {
    'text': 'Bounded symbolic check of Rock Ridge entry placement against an independent SUSP reader (name-length sweep x symbolic record length / mode / flags) '
            'and an inductive lemma for the continuation-area allocator from arbitrary valid block states.',
    'note': 'Partial: NM/PX/CE placement and the allocator are decided; SL/CL/PL/RE decoding by the reference reader is not built. Trusted: CrossHair, z3, M_struct.',
    'technique': 'symbolic execution of real RockRidge.new / continuation allocator (CrossHair + z3) with an independent SUSP reference reader',
}


def obligations(tier):
    H = 'vf.props.C08_h'
    obs = [{'name': 'C08.c/ce_allocator', 'module': H, 'func': 'ce_alloc', 'params': {}, 'cond_timeout': 600, 'path_timeout': 100,
            'bounds': 'block of 2048 bytes with k <= 3 tracked entries (offsets/lengths symbolic, sorted, disjoint); request length in [1,2048]',
            'functions': ['PrimaryOrSupplementaryVD.add_rr_ce_entry', 'RockRidgeContinuationBlock.add_entry', 'RockRidgeContinuationBlock.track_entry',
                          'RockRidgeContinuationBlock.remove_entry'], 'samples': [(0, 10, 20, 10, 40, 10, 3, 10), (1, 1, 2, 1, 3, 1, 1, 2047)]}]
    lens = [1, 60, 120, 160, 185, 200, 215, 240, 250] if tier == 'quick' else list(range(1, 60, 7)) + list(range(100, 256, 5)) + [255, 300, 500, 1000]
    vers = ['1.09', '1.12'] if tier == 'quick' else ['1.09', '1.10', '1.12']
    for v in vers:
        for n in lens:
            obs.append({'name': 'C08.a/rr_new/v%s/n%d' % (v.replace('.', ''), n), 'module': H, 'func': 'rr_new', 'params': {'namelen': n, 'rrver': v},
                        'cond_timeout': 900, 'path_timeout': 200,
                        'bounds': 'name of %d bytes, Rock Ridge %s; current record length even in [34,100], mode 16 bits, root-record flag, XA skip symbolic' % (n, v),
                        'functions': ['RockRidge.new', 'RockRidge._add_name', 'RockRidge._assign_entries', 'RockRidge.record_dr_entries', 'RockRidge.record_ce_entries',
                                      'RRNMRecord.record', 'RRPXRecord.record', 'RRCERecord.record'], 'samples': [(34, 0o100644, 0, 0), (100, 0o40755, 1, 1)],
                        'stubs': ['M_struct', 'constant clock']})
    for v in vers:
        for n in (8, 200):
            obs.append({'name': 'C08.e/rr_links/v%s/n%d' % (v.replace('.', ''), n), 'module': H, 'func': 'rr_links', 'params': {'namelen': n, 'rrver': v},
                        'cond_timeout': 600, 'path_timeout': 100,
                        'bounds': 'directory with a %d-byte Rock Ridge name, sub-directories added and removed; one file length symbolic; Rock Ridge %s' % (n, v),
                        'functions': ['DirectoryRecord._rr_new', 'DirectoryRecord.remove_child', 'RockRidge.add_to_file_links', 'RockRidge.remove_from_file_links',
                                      'RockRidge.copy_file_links', 'PyCdlib.rm_directory'], 'samples': [(5,)]})
    return obs
