"""C07 Hard-link semantics (DESIGN section 2, C07).

Oracle: FINAL-STATE EQUIVALENCE.  A history that creates links and removes some of them must leave the image object in the
same observable state (digest: every extent, length, space size, directory contents, UDF entries ...) as the history that
creates the surviving names directly; removing the last name of a content must equal never having added it.
"""
from vf import h, skel
from vf.skel import fkw, dkw

CFG = h.P.get('cfg') or skel.cfg_of()
MAXLEN = h.P.get('maxlen', 0x3ffff800)
VARIANT = h.P.get('variant', 'link_unlink')


def _eq(da, db):
    if len(da) != len(db):
        return False
    ok = True
    for x, y in zip(da, db):
        ok = ok & (x == y)
    return ok


def _shared_ok(iso, paths):
    """all names of one content report the same data extent and length, and hold the same Inode object"""
    recs = [iso.get_record(**{k: v}) for k, v in paths]
    ok = True
    for r in recs[1:]:
        if r.inode is not recs[0].inode:
            return False
        ok = ok & (r.get_data_length() == recs[0].get_data_length())
    return ok


def link_unlink(l0: int, l1: int) -> bool:
    """
    pre: 0 <= l0 <= MAXLEN and 0 <= l1 <= MAXLEN
    post: _
    """
    c = CFG
    fp = h.InFP()
    # A: add AAA; link it under /DIR1/LNK (+ Joliet + UDF links); remove the ORIGINAL names
    a = skel.new_iso(c)
    a.add_directory(**dkw(c, 'DIR1'))
    a.add_fp(fp, l0, **fkw(c, 'AAA'))
    a.add_fp(fp, l1, **fkw(c, 'BBB'))
    a.add_hard_link(iso_old_path='/AAA.;1', iso_new_path='/DIR1/LNK.;1', rr_name='lnk' if c['rr'] else None)
    names = [('iso_path', '/AAA.;1'), ('iso_path', '/DIR1/LNK.;1')]
    if c['joliet']:
        a.add_hard_link(iso_old_path='/AAA.;1', joliet_new_path='/dir1/lnk')
        names.append(('joliet_path', '/dir1/lnk'))
    if c['udf']:
        a.add_hard_link(iso_old_path='/AAA.;1', udf_new_path='/dir1/lnk')
        names.append(('udf_path', '/dir1/lnk'))
    a.force_consistency()
    ok = _shared_ok(a, names)
    a.rm_hard_link(iso_path='/AAA.;1')
    if c['joliet']:
        a.rm_hard_link(joliet_path='/aaa')
    if c['udf']:
        a.rm_hard_link(udf_path='/aaa')
    a.force_consistency()
    # B: the surviving names created directly
    b = skel.new_iso(c)
    b.add_directory(**dkw(c, 'DIR1'))
    b.add_fp(fp, l0, **fkw(c, 'LNK', '/DIR1'))
    b.add_fp(fp, l1, **fkw(c, 'BBB'))
    b.force_consistency()
    ok = ok & _eq(skel.digest(a), skel.digest(b)) & skel.spans_ok(a, skel.collect_spans(a))
    return h.post(ok)


def same_leaf(l0: int, l1: int) -> bool:
    """
    pre: 0 <= l0 <= MAXLEN and 0 <= l1 <= MAXLEN
    post: _
    """
    c = CFG
    fp = h.InFP()
    # two names of one content with the SAME leaf identifier in different directories (records equal field by field:
    # same name, length, date); the later-created name is removed; then rm_file by the surviving name
    a = skel.new_iso(c)
    a.add_directory(**dkw(c, 'DIR1'))
    a.add_directory(**dkw(c, 'DIR2'))
    a.add_fp(fp, l0, **fkw(c, 'AAA', '/DIR1'))
    a.add_fp(fp, l1, **fkw(c, 'ZED', '/DIR2'))
    a.add_hard_link(iso_old_path='/DIR1/AAA.;1', iso_new_path='/DIR2/AAA.;1', rr_name='aaa' if c['rr'] else None)
    a.rm_hard_link(iso_path='/DIR2/AAA.;1')
    a.force_consistency()
    b = skel.new_iso(c)
    b.add_directory(**dkw(c, 'DIR1'))
    b.add_directory(**dkw(c, 'DIR2'))
    b.add_fp(fp, l0, **fkw(c, 'AAA', '/DIR1'))
    b.add_fp(fp, l1, **fkw(c, 'ZED', '/DIR2'))
    b.force_consistency()
    ok = _eq(skel.digest(a), skel.digest(b)) & skel.spans_ok(a, skel.collect_spans(a))
    ok = ok & _shared_ok(a, [('iso_path', '/DIR1/AAA.;1')])
    rec = a.get_record(iso_path='/DIR1/AAA.;1')
    n = 0
    for r, _pv in rec.inode.linked_records:
        if r is rec:
            n += 1
    ok = ok & (n == 1)          # the surviving name is still tracked by its content
    for iso in (a, b):
        iso.rm_file(iso_path='/DIR1/AAA.;1')
        iso.force_consistency()
    ok = ok & _eq(skel.digest(a), skel.digest(b))
    return h.post(ok)


def last_link(l0: int, l1: int) -> bool:
    """
    pre: 0 <= l0 <= MAXLEN and 0 <= l1 <= MAXLEN
    post: _
    """
    c = CFG
    fp = h.InFP()
    # A: add AAA with extra links everywhere, then remove every name one by one (last reference goes through a different namespace)
    a = skel.new_iso(c)
    a.add_directory(**dkw(c, 'DIR1'))
    a.add_fp(fp, l1, **fkw(c, 'BBB'))
    a.add_fp(fp, l0, iso_path='/AAA.;1', rr_name='aaa' if c['rr'] else None)
    a.add_hard_link(iso_old_path='/AAA.;1', iso_new_path='/DIR1/LNK.;1', rr_name='lnk' if c['rr'] else None)
    if c['joliet']:
        a.add_hard_link(iso_old_path='/AAA.;1', joliet_new_path='/dir1/lnk')
    if c['udf']:
        a.add_hard_link(iso_old_path='/AAA.;1', udf_new_path='/dir1/lnk')
        a.add_hard_link(iso_old_path='/AAA.;1', udf_new_path='/lnk2')
    a.rm_hard_link(iso_path='/AAA.;1')
    a.rm_hard_link(iso_path='/DIR1/LNK.;1')
    if c['udf']:
        a.rm_hard_link(udf_path='/dir1/lnk')
    if c['joliet']:
        a.rm_hard_link(joliet_path='/dir1/lnk')
    if c['udf']:
        a.rm_hard_link(udf_path='/lnk2')
    a.force_consistency()
    b = skel.new_iso(c)
    b.add_directory(**dkw(c, 'DIR1'))
    b.add_fp(fp, l1, **fkw(c, 'BBB'))
    b.force_consistency()
    ok = _eq(skel.digest(a), skel.digest(b)) & skel.spans_ok(a, skel.collect_spans(a))
    return h.post(ok)


def rm_file_all(l0: int, l1: int) -> bool:
    """
    pre: 0 <= l0 <= MAXLEN and 0 <= l1 <= MAXLEN
    post: _
    """
    c = CFG
    fp = h.InFP()
    # rm_file by one name removes precisely the names of that content and no unrelated entry (equal length l0 == l1 included)
    a = skel.new_iso(c)
    a.add_directory(**dkw(c, 'DIR1'))
    a.add_fp(fp, l0, **fkw(c, 'AAA'))
    a.add_fp(fp, l1, **fkw(c, 'BBB'))
    a.add_fp(fp, l0, **fkw(c, 'CCC', '/DIR1'))
    a.add_hard_link(iso_old_path='/AAA.;1', iso_new_path='/DIR1/LNK.;1', rr_name='lnk' if c['rr'] else None)
    a.rm_file(iso_path='/DIR1/LNK.;1')
    a.force_consistency()
    b = skel.new_iso(c)
    b.add_directory(**dkw(c, 'DIR1'))
    b.add_fp(fp, l1, **fkw(c, 'BBB'))
    b.add_fp(fp, l0, **fkw(c, 'CCC', '/DIR1'))
    b.force_consistency()
    ok = _eq(skel.digest(a), skel.digest(b)) & skel.spans_ok(a, skel.collect_spans(a))
    return h.post(ok)


META = {
    'explanation': 'C07: final-state equivalence between a history with links/unlinks and the history that creates the surviving names directly, '
                   'term by term on the allocation digest, for all file lengths (0 included); shared content = same Inode, same extent/length.',
    'assumptions': ['fresh images only here; re-opened images (parse-time inode sharing) are covered by C02.b',
                    'names concrete; the three stated link histories per configuration'],
}

MANIFEST = {
    'text': 'Bounded symbolic model checking of link semantics by final-state equivalence: z3 decides for all lengths that link+unlink histories over '
            'ISO9660/Joliet/UDF/Rock Ridge names end in exactly the state of the direct history (space released iff last reference removed).',
    'note': 'Bounded by the four link histories x configuration list x length interval, plus unlink after re-open (C07.b, one symbolic length). Trusted: CrossHair, z3, constant clock/random.',
    'technique': 'symbolic execution of real link/unlink code (CrossHair + z3), differential final-state digest',
}


def obligations(tier):
    cfgs = skel.quick_cfgs() if tier == 'quick' else skel.pairwise_cfgs()
    obs = []
    for fn in ('link_unlink', 'last_link', 'rm_file_all', 'same_leaf'):
        for c in cfgs:
            obs.append({'name': 'C07.a/%s/%s' % (fn, skel.cfg_name(c)), 'module': __name__, 'func': fn, 'params': {'cfg': c},
                        'cond_timeout': 600, 'path_timeout': 100,
                        'bounds': 'history %s; config %s; two lengths in [0, 0x3ffff800]' % (fn, skel.cfg_name(c)),
                        'functions': ['PyCdlib.add_hard_link', 'PyCdlib.rm_hard_link', 'PyCdlib.rm_file', 'PyCdlib._add_hard_link_to_inode',
                                      'PyCdlib._rm_dr_link', 'PyCdlib._rm_udf_link', 'PyCdlib._rm_file_inodes', 'PyCdlib._finish_remove'],
                        'samples': [(0, 1), (2049, 2049)], 'stubs': ['M_rand', 'constant clock', 'Span file data']})
    # C07.b: unlinking one name of a multiply-linked file AFTER RE-OPEN (link counts rebuilt by the parser): the harness is C02's open_edit
    # (master, open, edit, master, open; the other names must still resolve to the same extent and length)
    from vf.props import C02
    for ob in C02.obligations('quick'):      # the one-symbolic-length variants in both tiers (three symbolic lengths cost up to 50 min each: C02's thorough tier)
        ed = ob['params'].get('edit')
        if ob['func'] == 'open_edit' and ed in ('rm_udf_link', 'rm_link'):
            ob = dict(ob)
            ob['name'] = ob['name'].replace('C02.b/', 'C07.b/reopened_')
            obs.append(ob)
    if True:
        c = skel.cfg_of(3, None, None, False, False)
        obs.append({'name': 'C07.b/reopened_rm_link/%s' % skel.cfg_name(c), 'module': 'vf.props.C02', 'func': 'open_edit',
                    'params': {'cfg': c, 'edit': 'rm_link', 'fixed': [0, 2049]}, 'cond_timeout': 1500, 'path_timeout': 400,
                    'bounds': 'gen-0 history (3 files, directory, hard link); edit rm_link after re-open; l0 in [0,6144], l1 = 0, l2 = 2049',
                    'functions': ['PyCdlib.open_fp', 'PyCdlib._walk_directories', 'PyCdlib.rm_hard_link', 'PyCdlib._rm_dr_link', 'PyCdlib.write_fp'],
                    'samples': [(0, 2048, 2049)], 'stubs': ['M_struct', 'M_out', 'M_image', 'M_rand', 'constant clock']})
    return obs
