"""C11.b CrossHair harnesses: El Torito layout on the REAL add_eltorito / rm_hard_link / rm_eltorito / write_fp (no z3 import)."""
from vf import h, skel

h.fix_env()
import pycdlib  # noqa: E402,F401

CFG = h.P.get('cfg') or skel.cfg_of()
VARIANT = h.P.get('variant', 'plain')
MAXLEN = int(h.P.get('maxlen', 16383 * 2048))
LAST_DETAIL = None


def le(b, off, n):
    v = 0
    for k in range(n):
        v = v + b[off + k] * (256 ** k)
    return v


def elt_layout(l0: int, l1: int, l2: int) -> bool:
    """
    pre: 1 <= l0 <= MAXLEN and 1 <= l1 <= MAXLEN and 0 <= l2 <= 0x3ffff800
    post: _
    """
    # boot file (l0) with an explicit load size, an EFI section image (l1, default load size), an ordinary file (l2).
    # VARIANT: plain | hidden (the boot file's names are removed after add_eltorito) | removed (rm_eltorito) | hidden_removed.
    # Decoded from the bytes the REAL write_fp emits (boot record at sector 17, the boot catalog wherever the record points):
    #   catalog pointer, validation entry (header id, platform, key bytes), initial entry (bootable, media, load size, load RBA),
    #   section header + entry (platform 0xef, load RBA, sector count); each load RBA must be where the boot file's extent was
    #   written (the write log of the output model), the catalog's directory records must name the catalog sector;
    #   after rm_eltorito: no boot record, volume descriptors close up, the allocation is sound and exact and the file set is
    #   what was built minus exactly the El Torito parts (a hidden boot file disappears with it).
    global LAST_DETAIL
    c = CFG
    fp = skel.BootFP()
    iso = skel.new_iso(c)
    iso.add_fp(fp, l0, **skel.fkw(c, 'BOOT'))
    iso.add_fp(fp, l1, **skel.fkw(c, 'EFI'))
    iso.add_fp(fp, l2, **skel.fkw(c, 'AAA'))
    iso.add_eltorito('/BOOT.;1', bootcatfile='/BOOT.CAT;1', boot_load_size=4, rr_bootcatname='boot.cat' if c['rr'] else None,
                     joliet_bootcatfile='/boot.cat' if c['joliet'] else None, udf_bootcatfile='/boot.cat' if c['udf'] else None)
    iso.add_eltorito('/EFI.;1', efi=True)
    hidden = VARIANT in ('hidden', 'hidden_removed')
    if hidden:
        iso.rm_hard_link(iso_path='/BOOT.;1')
        if c['joliet']:
            iso.rm_hard_link(joliet_path='/boot')
        if c['udf']:
            iso.rm_hard_link(udf_path='/boot')
    removed = VARIANT in ('removed', 'hidden_removed')
    if removed:
        iso.rm_eltorito()
    out = h.OutFP()
    iso.write_fp(out, blocksize=1 << 40)
    ok = skel.spans_ok(iso, skel.collect_spans(iso))
    ok = ok & (out.end == iso.pvd.space_size * 2048)
    img = h.ImageFP(out)

    def rd(pos, n):
        img.seek(pos)
        return img.read(n)
    names = sorted(f for _d, _ds, fs in iso.walk(iso_path='/') for f in fs)
    if removed:
        # nothing of El Torito is left: sector 17 is not a boot record, the catalog name is gone, the other files are untouched
        s17 = rd(17 * 2048, 8)
        if s17[0] == 0 and bytes(s17[1:6]) == b'CD001':
            LAST_DETAIL = 'boot record still present at sector 17'
            return False
        want = ['AAA.;1', 'EFI.;1'] if hidden else ['AAA.;1', 'BOOT.;1', 'EFI.;1']
        if names != want:
            LAST_DETAIL = 'file set %r, expected %r' % (names, want)
            return False
        if iso.eltorito_boot_catalog is not None or len(iso.inodes) != len(want):
            LAST_DETAIL = '%d inodes for %d files' % (len(iso.inodes), len(want))
            return False
        for n_, l_ in (('/AAA.;1', l2), ('/EFI.;1', l1)):
            ok = ok & (iso.get_record(iso_path=n_).get_data_length() == l_)
        return h.post(ok)
    # --- the recorded structures, decoded independently
    br = rd(17 * 2048, 2048)
    if br[0] != 0 or bytes(br[1:6]) != b'CD001' or bytes(br[7:30]) != b'EL TORITO SPECIFICATION':
        LAST_DETAIL = 'no El Torito boot record at sector 17'
        return False
    cat_sector = le(br, 71, 4)
    if not h.concrete(cat_sector):
        LAST_DETAIL = 'symbolic catalog sector'
        return False
    cat = rd(cat_sector * 2048, 2048)
    # validation entry
    if cat[0] != 1 or cat[1] != 0 or cat[30] != 0x55 or cat[31] != 0xaa:
        LAST_DETAIL = 'validation entry malformed'
        return False
    s = 0
    for k in range(0, 32, 2):
        s = s + cat[k] + 256 * cat[k + 1]
    ok = ok & (s % 65536 == 0)
    # initial entry
    ini = cat[32:64]
    if ini[0] != 0x88 or ini[1] != 0:
        LAST_DETAIL = 'initial entry not bootable / not no-emulation'
        return False
    ok = ok & (le(ini, 6, 2) == 4)
    boot_ino = iso.eltorito_boot_catalog.initial_entry.inode
    ok = ok & (le(ini, 8, 4) == boot_ino.extent_location())
    # section header + entry
    sh, se = cat[64:96], cat[96:128]
    if sh[0] != 0x91 or sh[1] != 0xef or le(sh, 2, 2) != 1 or se[0] != 0x88:
        LAST_DETAIL = 'EFI section malformed'
        return False
    efi_ino = iso.eltorito_boot_catalog.sections[0].section_entries[0].inode
    ok = ok & (le(se, 8, 4) == efi_ino.extent_location()) & (le(se, 6, 2) == h.cdiv(l1, 2048) * 4)
    # the extents the catalog names are where the boot files' bytes were written (write log of the output model)
    for ino, ln in ((boot_ino, l0), (efi_ino, l1)):
        hit = False
        for (p, d) in out.spans:
            if isinstance(d, h.Span):
                hit = hit | ((p == ino.extent_location() * 2048) & (d.n == ln))
        ok = ok & hit
    # the catalog is reachable as a file under its names and those records name the catalog sector
    rec = iso.get_record(iso_path='/BOOT.CAT;1')
    ok = ok & (rec.extent_location() == cat_sector) & (rec.get_data_length() == 2048)
    if c['joliet']:
        ok = ok & (iso.get_record(joliet_path='/boot.cat').extent_location() == cat_sector)
    want = ['AAA.;1', 'BOOT.CAT;1', 'EFI.;1'] if hidden else ['AAA.;1', 'BOOT.;1', 'BOOT.CAT;1', 'EFI.;1']
    if names != want:
        LAST_DETAIL = 'file set %r, expected %r' % (names, want)
        return False
    return h.post(ok)


h.install_struct_model()
h.stub_udf_crc()
h.stub_progress()
