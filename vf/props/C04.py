"""C04 Sector allocation soundness -- obligations (see DESIGN.md section 2, C04)."""
from vf import h, skel
from vf.skel import SKELETONS

h.install_struct_model()
h.stub_udf_crc()
h.stub_progress()

CFG = h.P.get('cfg') or skel.cfg_of()
SK = SKELETONS[h.P.get('sk', 'sk1')]
MAXLEN = h.P.get('maxlen', 0x3ffff800)
MINLEN = h.P.get('minlen', 0)

META = {
    'validate': ['struct_model_vs_struct', 'fpmodel_vs_bytesio'],
    'explanation': 'C04: per-edit delta accounting (_finish_add/_finish_remove/add_to_ptr_size/add_file_ident_desc/add_rr_ce_entry) '
                   'versus the from-scratch pass _reshuffle_extents, on skeleton histories of real API calls with symbolic file lengths.',
    'assumptions': ['names are concrete; histories are the stated skeleton family; file lengths range over the stated interval',
                    'time.time/random.getrandbits/uuid.uuid4 replaced by constants (opaque to allocation)',
                    'file data modelled as length-only Span objects (content never inspected by allocation)'],
}


def alloc(l0: int, l1: int, l2: int) -> bool:
    """
    pre: MINLEN <= l0 <= MAXLEN and MINLEN <= l1 <= MAXLEN and MINLEN <= l2 <= MAXLEN
    post: _
    """
    iso = skel.new_iso(CFG)
    SK(iso, [l0, l1, l2], CFG)
    iso.force_consistency()
    sp = skel.collect_spans(iso)
    return h.post(skel.spans_ok(iso, sp))


def master(l0: int, l1: int, l2: int) -> bool:
    """
    pre: MINLEN <= l0 <= MAXLEN and MINLEN <= l1 <= MAXLEN and MINLEN <= l2 <= MAXLEN
    post: _
    """
    # C04.b: the write log of the REAL write_fp: nothing written twice, nothing beyond the declared size,
    # final length == declared size
    iso = skel.new_iso(CFG)
    SK(iso, [l0, l1, l2], CFG)
    out = h.OutFP()
    iso.write_fp(out, blocksize=1 << 40)
    total = iso.pvd.space_size * 2048
    ok = (out.end == total)
    log = out.log
    for a in log:
        ok = ok & (0 <= a[0]) & (a[1] <= total)
    ok = ok & h.disjoint(log)
    return h.post(ok)


def master1(l0: int) -> bool:
    """
    pre: MINLEN <= l0 <= MAXLEN
    post: _
    """
    # C04.b on UDF configurations: one symbolic length (the others 2048 and 2049)
    return master(l0, 2048, 2049)


FUNCS_ALLOC = ['PyCdlib.new', 'PyCdlib.add_fp', 'PyCdlib.add_directory', 'PyCdlib.rm_file', 'PyCdlib.add_hard_link',
               'PyCdlib.rm_hard_link', 'PyCdlib.add_eltorito', 'PyCdlib.add_symlink', 'PyCdlib.force_consistency',
               'PyCdlib._finish_add', 'PyCdlib._finish_remove', 'PyCdlib._reshuffle_extents', '_reassign_vd_dirrecord_extents',
               'PyCdlib._udf_assign_extents', 'PyCdlib._add_child_to_dr', 'PyCdlib._remove_child_from_dr',
               'DirectoryRecord._add_child', 'DirectoryRecord.remove_child', 'PrimaryOrSupplementaryVD.add_to_space_size',
               'PrimaryOrSupplementaryVD.add_to_ptr_size', 'UDFFileEntry.add_file_ident_desc', 'PrimaryOrSupplementaryVD.add_rr_ce_entry']


def obligations(tier):
    obs = []
    cfgs = skel.quick_cfgs() if tier == 'quick' else skel.pairwise_cfgs()
    sks = ['sk1', 'sk2', 'sk3']
    for sk in sks:
        for c in cfgs:
            obs.append({'name': 'C04.a/%s/%s' % (sk, skel.cfg_name(c)), 'module': __name__, 'func': 'alloc',
                        'params': dict({'sk': sk, 'cfg': c, 'minlen': 1 if sk == 'sk3' else 0}, **({'maxlen': 16383 * 2048} if sk == 'sk3' else {})),
                        'cond_timeout': 300, 'path_timeout': 60,
                        'bounds': 'skeleton %s (%s); config %s; three file lengths symbolic in [%d, 0x3ffff800]' % (
                            sk, SKELETONS[sk].__doc__.split('\n')[0], skel.cfg_name(c), 1 if sk == 'sk3' else 0),
                        'functions': FUNCS_ALLOC, 'samples': [(1, 2048, 2049)],
                        'stubs': ['M_rand', 'constant time.time', 'Span file data']})
    for sk in (['sk1', 'sk2'] if tier == 'quick' else ['sk1', 'sk2', 'sk3', 'sk4']):
        for c in cfgs:
            if sk == 'sk4' and not c['rr']:
                continue
            obs.append({'name': 'C04.b/%s/%s' % (sk, skel.cfg_name(c)), 'module': __name__, 'func': 'master',
                        'params': dict({'sk': sk, 'cfg': c, 'minlen': 1 if sk == 'sk3' else 0}, **({'maxlen': 16383 * 2048} if sk == 'sk3' else {})),
                        'cond_timeout': 900, 'path_timeout': 200,
                        'bounds': 'skeleton %s; config %s; three file lengths symbolic in [0, 0x3ffff800]; one copy-loop iteration per file (blocksize 2^40)' % (
                            sk, skel.cfg_name(c)),
                        'functions': ['PyCdlib.write_fp', 'PyCdlib._write_fp', 'PyCdlib._write_directory_records', 'PyCdlib._output_file_data',
                                      'PyCdlib._outfp_write_with_check', 'utils.copy_data_yield', 'utils.zero_pad', 'every record() reached'],
                        'samples': [(1, 2048, 2049)],
                        'stubs': ['M_struct', 'M_out position-only output', 'M_rand', 'constant time.time', 'Span file data']})
    from vf.props import packing
    obs += packing.obligations_for('C04.c', tier)
    for nf in ((44,) if tier == 'quick' else (44, 43, 90)):
        obs.append({'name': 'C04.c/udf_fid_packing/nfill%d' % nf, 'engine': 'chx', 'module': 'vf.props.C10_h', 'func': 'fid_packing', 'params': {'nfill': nf},
                    'cond_timeout': 900, 'path_timeout': 200,
                    'bounds': 'UDF root directory with %d concrete names + 3 identifiers with symbolic name lengths in [1,254], added then removed' % nf,
                    'functions': ['UDFFileEntry.add_file_ident_desc', 'UDFFileEntry.remove_file_ident_desc_by_name', 'UDFFileIdentifierDescriptor.length',
                                  'PyCdlib._udf_assign_extents', 'PyCdlib._finish_add', 'PyCdlib._finish_remove', 'PyCdlib.rm_file'],
                    'samples': [(30, 4, 4), (31, 5, 9)], 'stubs': ['names modelled by their length (Span)']})
    return obs


MANIFEST = {
    'text': 'Bounded symbolic model checking of the real allocation code: for each skeleton history of real public-API calls and each '
            'namespace configuration, z3 decides for ALL file lengths in the stated interval that every on-disc object reported by the real '
            'objects after force_consistency is pairwise disjoint, inside the declared volume size, and that the declared size is reached exactly. '
            'Right level because the defect class is integer accounting (two computations of one layout) whose failing inputs are rare lengths.',
    'note': 'Trusted: CrossHair symbolic interpreter, z3, constant clock/random stubs, length-only file data. Bounded by the skeleton family, '
            'configuration list and length interval stated per obligation; histories outside the family are not claimed.',
    'technique': 'symbolic execution of real pycdlib code (CrossHair) + z3 over symbolic file lengths; reachability twins; concrete replay',
}
