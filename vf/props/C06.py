"""C06 Lazy metadata transparency (DESIGN section 2, C06).

Three PyCdlib objects receive the SAME real edit history with the same symbolic file lengths:
 A always_consistent=True, B lazy with force_consistency + a record query inserted after edit number p
 (p symbolic: the solver enumerates every placement), C lazy.  After the final force_consistency the
 digests (every publicly observable allocation quantity) must be equal term by term.
C06.b: a second _reshuffle_extents leaves the digest unchanged (idempotence of the recomputation pass).
"""
from vf import h, skel
from vf.skel import SKELETONS

CFG = h.P.get('cfg') or skel.cfg_of()
SKN = h.P.get('sk', 'sk1')
SK = SKELETONS[SKN]
MAXLEN = h.P.get('maxlen', 0x3ffff800)
MINLEN = h.P.get('minlen', 0)
NSTEPS = h.P.get('nsteps', 5)


def _build(ac, L, p):
    iso = skel.new_iso(CFG, always_consistent=ac)

    def hook(i):
        if i == p:
            iso.force_consistency()
            for _c in iso.list_children(iso_path='/'):
                pass
    SK(iso, L, CFG, hook)
    # what the writer sees: _write_fp recomputes ONLY if the stale flag is set (its first statement).  Calling
    # force_consistency() here instead would recompute unconditionally and hide a flag that was wrongly left clear.
    if iso._needs_reshuffle:
        iso._reshuffle_extents()
    return iso


def eq_digests(da, db):
    ok = len(da) == len(db)
    if not ok:
        return False
    for x, y in zip(da, db):
        ok = ok & (x == y)
    return ok


def lazy_eq(l0: int, l1: int, l2: int, p: int) -> bool:
    """
    pre: MINLEN <= l0 <= MAXLEN and MINLEN <= l1 <= MAXLEN and MINLEN <= l2 <= MAXLEN
    pre: 0 <= p < NSTEPS
    post: _
    """
    L = [l0, l1, l2]
    a = _build(True, L, -1)
    b = _build(False, L, p)
    c = _build(False, L, -1)
    da, db, dc = skel.digest(a), skel.digest(b), skel.digest(c)
    return h.post(eq_digests(da, db) & eq_digests(db, dc))


def idem(l0: int, l1: int, l2: int) -> bool:
    """
    pre: MINLEN <= l0 <= MAXLEN and MINLEN <= l1 <= MAXLEN and MINLEN <= l2 <= MAXLEN
    post: _
    """
    c = _build(False, [l0, l1, l2], -1)
    d1 = skel.digest(c)
    c._reshuffle_extents()
    d2 = skel.digest(c)
    c._reshuffle_extents()
    d3 = skel.digest(c)
    return h.post(eq_digests(d1, d2) & eq_digests(d2, d3))


META = {
    'explanation': 'C06: the schedule of metadata recomputation (always-consistent mode, force_consistency/query at a symbolic position) '
                   'is a symbolic integer; the digest contains every extent, length, link count, CE block/offset, path-table number, '
                   'UDF location and El Torito address that reaches the written image.',
    'assumptions': ['byte identity of the written images follows from digest equality because record bytes are functions of the digest '
                    'fields (C03.a/C05.a); stated as an argument, not re-checked here',
                    'histories are the stated skeleton family; names concrete',
                    'clock/random constants; file data length-only'],
}

MANIFEST = {
    'text': 'Bounded symbolic model checking of schedule independence: for each skeleton history and configuration z3 decides, for all file '
            'lengths in range and EVERY position of an interposed force_consistency+query, that always-consistent, interposed-lazy and lazy '
            'objects end with identical allocation digests, and that the recomputation pass is idempotent.',
    'note': 'Bounded by skeleton family, configurations, length interval; one interposed recomputation point per run (all positions covered); '
            'digest = quantities observable via the API or the image. Trusted: CrossHair, z3, constant clock/random.',
    'technique': 'symbolic execution of real pycdlib edit/recompute code (CrossHair + z3), schedule position as a symbolic integer',
}

_STEPS = {'sk1': 5, 'sk2': 9, 'sk3': 6, 'sk4': 15}


def _nsteps(sk, c):
    if sk == 'sk2':
        return 6 + 2 * bool(c['joliet']) + 2 * bool(c['udf'])
    if sk == 'sk7':
        return 4 + 2 * bool(c['joliet']) + 2 * bool(c['udf'])
    if sk == 'sk4':
        return 3 + (1 if c['rr'] else 0) + (8 if (c['rr'] or c['il'] == 4) else 7) + 2
    return _STEPS[sk]


def obligations(tier):
    obs = []
    quick = tier == 'quick'
    cfgs = skel.quick_cfgs() if quick else skel.pairwise_cfgs()
    for sk in ('sk1', 'sk2', 'sk3', 'sk4', 'sk7'):
        for c in cfgs:
            nm = skel.cfg_name(c)
            if sk == 'sk4' and not c['rr']:
                continue
            ns = _nsteps(sk, c)
            if quick:
                # quick tier: every configuration on sk1; the heavier skeletons on the configurations that carry the most namespaces
                if sk == 'sk2' and not (c['joliet'] and c['udf'] and c['rr']):
                    continue
                if sk == 'sk3' and not c['udf']:
                    continue
                if sk == 'sk7' and not ((c['joliet'] and c['udf'] and c['rr']) or not (c['joliet'] or c['udf'] or c['rr'])):
                    continue
                if sk == 'sk4':
                    if c['joliet'] or c['udf']:
                        continue
                    ns = 6      # quick: recomputation point among the first 6 edits (long names, symlink, two directories)
            base = {'sk': sk, 'cfg': c, 'minlen': 1 if sk == 'sk3' else 0, 'nsteps': ns}
            obs.append({'name': 'C06.a/%s/%s' % (sk, nm), 'module': __name__, 'func': 'lazy_eq', 'params': base,
                        'cond_timeout': 1500, 'path_timeout': 120,
                        'bounds': 'skeleton %s; config %s; 3 lengths in [%d,0x3ffff800]; force_consistency+list_children after edit p, p in [0,%d)' % (
                            sk, nm, base['minlen'], ns),
                        'functions': ['PyCdlib.__init__(always_consistent)', 'PyCdlib.force_consistency', 'PyCdlib._reshuffle_extents',
                                      'PyCdlib._finish_add', 'PyCdlib._finish_remove', '_reassign_vd_dirrecord_extents', 'PyCdlib._udf_assign_extents',
                                      'PrimaryOrSupplementaryVD.clear_rr_ce_entries', 'PyCdlib.list_children'],
                        'stubs': ['M_rand', 'constant time.time', 'Span file data', 'udf.symlink_to_bytes run natively (concrete targets)']})
            if sk in ('sk1', 'sk4'):
                obs.append({'name': 'C06.b/%s/%s' % (sk, nm), 'module': __name__, 'func': 'idem', 'params': base,
                            'cond_timeout': 600, 'path_timeout': 120,
                            'bounds': 'skeleton %s; config %s; 3 lengths symbolic; _reshuffle_extents run three times' % (sk, nm),
                            'functions': ['PyCdlib._reshuffle_extents'], 'stubs': ['M_rand', 'constant time.time', 'Span file data']})
    return obs
