"""C13.b CrossHair harnesses: every identifier that is ACCEPTED fits the one-byte length field that holds it (no z3 import).

The identifier is an opaque byte string of SYMBOLIC LENGTH (h.Span: content never inspected by the code under test), so the solver decides
the boundary for every length, not a sample of names."""
from vf import h, skel

h.fix_env()
import pycdlib  # noqa: E402,F401
from pycdlib import dr as drmod, udf as udfmod, pycdlibexception  # noqa: E402

XA = bool(h.P.get('xa', False))
ISDIR = bool(h.P.get('isdir', False))
WIDE = bool(h.P.get('wide', False))


class _Name:
    """stands for a UTF-8 name whose Latin-1 (or, if WIDE, UCS-2) encoding has n bytes"""
    def __init__(self, n):
        self.n = n

    def decode(self, enc):
        return self

    def encode(self, enc):
        if enc == 'latin-1':
            if WIDE:
                raise UnicodeEncodeError('latin-1', 'x', 0, 1, 'not Latin-1')
            return h.Span(self.n)
        return h.Span(2 * self.n)


def dr_fit(n: int) -> bool:
    """
    pre: 1 <= n <= 100000
    post: _
    """
    # DirectoryRecord._new with an identifier of n bytes: refused with the invalid-input error, or the record length it computes
    # is the real one (33 + n, XA, padded to even) and fits one byte
    iso = skel.new_iso(skel.cfg_of(4, None, None, False, XA))
    root = iso.pvd.root_directory_record()
    rec = drmod.DirectoryRecord()
    try:
        rec._new(iso.pvd, h.Span(n), root, 1, ISDIR, 0, XA, 0.0)
    except pycdlibexception.PyCdlibInvalidInput:
        return h.post(True)
    want = 33 + n + (14 if XA else 0)
    want = want + want % 2
    return h.post((rec.dr_len == want) & (rec.dr_len <= 255) & (rec.len_fi == n))


def fid_fit(n: int) -> bool:
    """
    pre: 1 <= n <= 100000
    post: _
    """
    # UDFFileIdentifierDescriptor.new with a name of n characters (Latin-1: n bytes; WIDE: 2n bytes): refused with the invalid-input
    # error, or L_FI == bytes + 1 fits one byte and the REAL record() packs it (M_struct raises struct.error for a value out of range)
    d = udfmod.UDFFileIdentifierDescriptor()
    try:
        d.new(ISDIR, False, _Name(n), None)
    except pycdlibexception.PyCdlibInvalidInput:
        return h.post(True)
    nbytes = 2 * n if WIDE else n
    ok = (d.len_fi == nbytes + 1) & (d.len_fi <= 255)
    try:
        hdr = udfmod.struct.pack('=B', d.len_fi)     # the packing record() performs for L_FI (struct model under the solver, real struct in replays)
    except Exception:                                # struct.error: the accepted identifier does not fit
        return False
    return h.post(ok & (len(hdr) == 1))


h.install_struct_model()
