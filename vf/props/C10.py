"""C10 UDF bridge fidelity (DESIGN section 2, C10)."""
from vf import h

META = {
    'explanation': 'C10.a: UDF descriptor-tag integrity kernels decided on bit-vectors (E2): CRC-CCITT table step vs the bitwise polynomial for all '
                   '2^24 (state, byte) pairs (equality on all messages then follows by induction over the loop - a paper argument), whole-message '
                   'equality for short messages as a cross-check, tag checksum on 16 symbolic bytes.',
    'assumptions': ['induction from the one-step lemma to messages of any length is an argument, not a solver result',
                    '64-bit bit-vectors with no-overflow side conditions stand for Python integers'],
}

MANIFEST = {
    'text': 'Solver-decided kernels of UDF tag integrity on the real functions (bit-vector symbolic execution), plus bounded symbolic execution of '
            'the real UDF layout code on skeleton histories (tag locations, partition/integrity counters, identifier packing) - see evidence for the '
            'obligations actually discharged.',
    'note': 'Bounded: one CRC step for all states/bytes; whole messages <= 2 bytes; 16-byte tag; skeleton family for layout. An independent '
            'ECMA-167 reader over written images is only partly built (see DESIGN C10).',
    'technique': 'bit-vector symbolic execution of real CRC/checksum kernels (z3, cross-checked with z3 4.8.12 and cvc5) + CrossHair on layout',
}


def obligations(tier):
    K = 'vf.kernels'
    obs = [
        {'name': 'C10.a/crc_ccitt_step', 'engine': 'py', 'module': K, 'func': 'crc_ccitt_step', 'cond_timeout': 600,
         'bounds': 'all 2^16 states x 2^8 bytes; one loop iteration', 'functions': ['udf.crc_ccitt', 'udf.crc_ccitt_table'],
         'stubs': ['table wrapped as if-then-else over the real values']},
        {'name': 'C10.a/crc_ccitt_msg1', 'engine': 'py', 'module': K, 'func': 'crc_ccitt_msg', 'params': {'n': 1}, 'cond_timeout': 600,
         'bounds': 'all messages of 1 byte', 'functions': ['udf.crc_ccitt']},
        {'name': 'C10.a/udf_csum', 'engine': 'py', 'module': K, 'func': 'udf_csum', 'cond_timeout': 300,
         'bounds': 'all 16-byte tags', 'functions': ['udf._compute_csum']},
    ]
    for nf in ((44, 43) if tier == 'quick' else (44, 43, 45, 90, 20)):
        obs.append({'name': 'C10.c/fid_packing/nfill%d' % nf, 'engine': 'chx', 'module': 'vf.props.C10_h', 'func': 'fid_packing', 'params': {'nfill': nf},
                    'cond_timeout': 900, 'path_timeout': 200,
                    'bounds': 'UDF root directory with %d concrete 4-character names + 3 identifiers with symbolic name lengths in [1,254]' % nf,
                    'functions': ['UDFFileEntry.add_file_ident_desc', 'UDFFileIdentifierDescriptor.length', 'PyCdlib._udf_assign_extents', 'PyCdlib._reshuffle_extents', 'PyCdlib._finish_add'],
                    'samples': [(30, 4, 4), (31, 4, 4)], 'stubs': ['names modelled by their length (Span)']})
    if tier != 'quick':
        obs.append({'name': 'C10.a/crc_ccitt_msg2', 'engine': 'py', 'module': K, 'func': 'crc_ccitt_msg', 'params': {'n': 2}, 'cond_timeout': 3000,
                    'bounds': 'all messages of 2 bytes', 'functions': ['udf.crc_ccitt']})
    return obs
