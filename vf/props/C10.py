"""C10 UDF bridge fidelity (DESIGN section 2, C10)."""
from vf import h

META = {
    'explanation': 'C10.a: UDF descriptor-tag integrity kernels decided on bit-vectors (E2): CRC-CCITT table step vs the bitwise polynomial for all '
                   '2^24 (state, byte) pairs (equality on all messages then follows by induction over the loop - a paper argument), whole-message '
                   'equality for short messages as a cross-check, tag checksum on 16 symbolic bytes.',
    'assumptions': ['induction from the one-step lemma to messages of any length is an argument, not a solver result',
                    '64-bit bit-vectors with no-overflow side conditions stand for Python integers'],
}

MANIFEST = {
    'text': 'Solver-decided kernels of UDF tag integrity on the real functions (bit-vector symbolic execution); bounded symbolic execution of the real '
            'write_fp on skeleton histories with symbolic file lengths, decoded by an independent ECMA-167 reader (recognition sequence, anchors at 256 and '
            'the symbolic last sector, mirrored descriptor sequences, partition/integrity counters, file entries, identifier tags, parent entries, directory '
            'link counts, symlink bodies); the identifier-packing lemma (add and remove); symlink path components over all code points.',
    'note': 'Bounded: one CRC step for all states/bytes, whole messages <= 2 bytes, 16-byte tag; skeleton family sk1/2/3/7/10/11 x UDF configurations x '
            'lengths in [0, 0x3ffff800]; symlink targets of <= 4 (quick) / 5 (thorough) characters. Tag checksum/CRC VALUES are verified for real on the '
            'declared concrete samples and replays only (constant under the solver). One recorded finding (File Link Count of hard-linked files).',
    'technique': 'bit-vector symbolic execution of real CRC/checksum kernels (z3, cross-checked with z3 4.8.12 and cvc5) + CrossHair symbolic execution of '
                 'the real UDF writer decoded by an independent reference reader',
}


def obligations(tier):
    K = 'vf.kernels'
    obs = [
        {'name': 'C10.a/crc_ccitt_step', 'engine': 'py', 'module': K, 'func': 'crc_ccitt_step', 'cond_timeout': 600,
         'bounds': 'all 2^16 states x 2^8 bytes; one loop iteration', 'functions': ['udf.crc_ccitt', 'udf.crc_ccitt_table'],
         'stubs': ['table wrapped as if-then-else over the real values']},
        {'name': 'C10.a/crc_ccitt_msg1', 'engine': 'py', 'module': K, 'func': 'crc_ccitt_msg', 'params': {'n': 1}, 'cond_timeout': 600,
         'bounds': 'all messages of 1 byte', 'functions': ['udf.crc_ccitt']},
        {'name': 'C10.a/udf_csum', 'engine': 'py', 'module': K, 'func': 'udf_csum', 'cond_timeout': 300,
         'bounds': 'all 16-byte tags', 'functions': ['udf._compute_csum']},
    ]
    for nf in ((44, 43) if tier == 'quick' else (44, 43, 45, 90, 20)):
        obs.append({'name': 'C10.c/fid_packing/nfill%d' % nf, 'engine': 'chx', 'module': 'vf.props.C10_h', 'func': 'fid_packing', 'params': {'nfill': nf},
                    'cond_timeout': 900, 'path_timeout': 200,
                    'bounds': 'UDF root directory with %d concrete 4-character names + 3 identifiers with symbolic name lengths in [1,254]' % nf,
                    'functions': ['UDFFileEntry.add_file_ident_desc', 'UDFFileIdentifierDescriptor.length', 'PyCdlib._udf_assign_extents', 'PyCdlib._reshuffle_extents', 'PyCdlib._finish_add'],
                    'samples': [(30, 4, 4), (31, 4, 4)], 'stubs': ['names modelled by their length (Span)']})
    from vf import skel
    ucfgs = [skel.cfg_of(3, None, None, True, False), skel.cfg_of(3, 3, '1.09', True, False)] if tier == 'quick' else [c for c in skel.pairwise_cfgs() if c['udf']] + [skel.cfg_of(3, None, None, True, False)]
    for sk in ('sk1', 'sk2', 'sk3', 'sk7', 'sk10', 'sk11'):
        for c in ucfgs:
            params = {'sk': sk, 'cfg': c}
            b = 'three file lengths in [0, 0x3ffff800]'
            if sk == 'sk3':
                # El Torito: boot files are non-empty and their load size is a 16-bit count of 512-byte sectors
                params.update({'minlen': 1, 'maxlen': 16383 * 2048})
                b = 'three file lengths in [1, 33552384] (boot images: non-empty; the default load size, the block-rounded length in 512-byte sectors, is a 16-bit field)'
            if tier == 'quick':
                params['fixed'] = [2048, 2049]
                b = 'l0 in [%d, %d], l1 = 2048, l2 = 2049 (three symbolic lengths cost 6-25 min per obligation: thorough tier only, so that the quick check stays far below 15 min on a loaded machine)' % (params.get('minlen', 0), params.get('maxlen', 0x3ffff800))
            obs.append({'name': 'C10.b/udf_reader/%s/%s' % (sk, skel.cfg_name(c)), 'engine': 'chx', 'module': 'vf.props.C10_h', 'func': 'udf_reader',
                        'params': params, 'cond_timeout': 1500 if tier == 'quick' else 4000, 'path_timeout': 300,
                        'bounds': 'skeleton %s; config %s; %s' % (sk, skel.cfg_name(c), b),
                        'functions': ['PyCdlib.write_fp', 'PyCdlib._udf_assign_extents', 'UDFAnchorVolumeStructure.record', 'UDFPartitionVolumeDescriptor.record',
                                      'UDFLogicalVolumeDescriptor.record', 'UDFLogicalVolumeIntegrityDescriptor.record', 'UDFFileSetDescriptor.record',
                                      'UDFFileEntry.record', 'UDFFileIdentifierDescriptor.record', 'UDFTag.record'],
                        'samples': [(1, 2048, 2049), (0, 0, 0)],
                        'stubs': ['M_struct', 'M_out', 'M_image', 'UDF CRC/checksum constant under the solver (verified for real on the concrete samples and in replays)',
                                  'the anchor at the (symbolic) last sector is identified with the writer\'s one symbolic-position descriptor write by an equation, not by search']})
    # File Link Count of hard-linked (non-directory) File Entries: kept in its own obligation -- it fails on the current tree and is a
    # recorded finding (known_findings.txt); the other equations of the reader stay decided by the obligations above
    for c in ucfgs[:1] if tier == 'quick' else ucfgs:
        obs.append({'name': 'C10.b/udf_linkcount/sk11/%s' % skel.cfg_name(c), 'engine': 'chx', 'module': 'vf.props.C10_h', 'func': 'udf_reader',
                    'params': {'sk': 'sk11', 'cfg': c, 'fixed': [2048, 2049], 'linkcount': True}, 'cond_timeout': 1500, 'path_timeout': 300,
                    'bounds': 'skeleton sk11 (UDF hard links that stay); config %s; l0 in [0, 0x3ffff800], l1 = 2048, l2 = 2049; ONLY the equation '
                              'File Link Count == number of File Identifier Descriptors identifying the File Entry, for non-directories' % skel.cfg_name(c),
                    'functions': ['PyCdlib.add_hard_link', 'PyCdlib.rm_hard_link', 'UDFFileEntry.record', 'PyCdlib.write_fp'], 'samples': [],
                    'stubs': ['M_struct', 'M_out', 'M_image', 'UDF CRC/checksum constant under the solver']})
    mt = 4 if tier == 'quick' else 5
    obs.append({'name': 'C10.d/symlink_rt/len_le%d' % mt, 'engine': 'chx', 'module': 'vf.props.C10_h', 'func': 'symlink_rt', 'params': {'maxt': mt},
                'cond_timeout': 1500, 'path_timeout': 100,
                'bounds': 'every normalised Unix-like symlink target of 1..%d characters over the WHOLE code-point range (Latin-1, BMP, astral; lone surrogates and '
                          'NUL excluded; no empty component except a leading one): decode(symlink_to_bytes(t)) == t with an independent ECMA-167 4/14.16.1 '
                          'path-component decoder; longer targets are outside the claim' % mt,
                'functions': ['udf.symlink_to_bytes', 'udf._ostaunicode'], 'samples': [('a/../b',), ('/x',)],
                'stubs': ['symbolic utf-16-be encoder and non-realising strict-mode encode errors added to CrossHair (vf/h.py install_codecs)']})
    if tier != 'quick':
        obs.append({'name': 'C10.a/crc_ccitt_msg2', 'engine': 'py', 'module': K, 'func': 'crc_ccitt_msg', 'params': {'n': 2}, 'cond_timeout': 3000,
                    'bounds': 'all messages of 2 bytes', 'functions': ['udf.crc_ccitt']})
    return obs
