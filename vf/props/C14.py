"""C14 Failure atomicity: a refused edit changes nothing (DESIGN section 2, C14).

For each refusal recipe (a public mutator + arguments that the library must refuse) on an object built by a real history with
symbolic file lengths:  digest; call (must raise a PyCdlibException); force_consistency; digest again -> equal term by term;
then one accepted edit must leave the object in the same state as on a twin that never saw the refused call.
"""
from vf import h, skel
from vf.skel import fkw, dkw
from pycdlib import pycdlibexception

CFG = h.P.get('cfg') or skel.cfg_of()
MAXLEN = h.P.get('maxlen', 0x3ffff800)
RECIPE = h.P.get('recipe', 'add_fp_dup_iso')
LAST_DETAIL = None


def _base(c, L, fp):
    iso = skel.new_iso(c)
    iso.add_fp(fp, L[0], **fkw(c, 'AAA'))
    iso.add_directory(**dkw(c, 'DIR1'))
    iso.add_fp(fp, L[1], **fkw(c, 'CCC', '/DIR1'))
    if RECIPE.startswith('el_') or RECIPE.startswith('elx_'):
        iso.add_fp(skel.BootFP(), 2048, **fkw(c, 'BOOT'))
    if RECIPE.startswith('elx_'):
        # refusals on an image that already HAS El Torito (+ a hard link to the boot file)
        iso.add_eltorito('/BOOT.;1', bootcatfile='/BOOT.CAT;1', rr_bootcatname='boot.cat' if c['rr'] else None,
                         joliet_bootcatfile='/boot.cat' if c['joliet'] else None, udf_bootcatfile='/boot.cat' if c['udf'] else None)
        iso.add_hard_link(iso_old_path='/BOOT.;1', iso_new_path='/DIR1/BOOTLNK.;1', rr_name='bootlnk' if c['rr'] else None)
    return iso


def _rr(c, n):
    return n if c['rr'] else None


def recipes(c):
    """name -> (callable(iso, fp), applicable?)"""
    J, U, R = bool(c['joliet']), bool(c['udf']), bool(c['rr'])
    r = {}
    r['add_fp_dup_iso'] = (lambda iso, fp: iso.add_fp(fp, 5, iso_path='/AAA.;1', rr_name=_rr(c, 'other')), True)
    r['add_fp_bad_iso_name'] = (lambda iso, fp: iso.add_fp(fp, 5, iso_path='/bad name.;1', rr_name=_rr(c, 'x')), c['il'] < 4)
    r['add_fp_missing_parent'] = (lambda iso, fp: iso.add_fp(fp, 5, **fkw(c, 'NEW', '/NODIR')), True)
    r['add_fp_dup_joliet'] = (lambda iso, fp: iso.add_fp(fp, 5, iso_path='/NEW.;1', rr_name=_rr(c, 'new'), joliet_path='/aaa'), J)
    r['add_fp_dup_udf'] = (lambda iso, fp: iso.add_fp(fp, 5, iso_path='/NEW.;1', rr_name=_rr(c, 'new'),
                                                       joliet_path='/new' if J else None, udf_path='/aaa'), U)
    r['add_fp_joliet_missing_parent'] = (lambda iso, fp: iso.add_fp(fp, 5, iso_path='/NEW.;1', rr_name=_rr(c, 'new'), joliet_path='/nodir/new'), J)
    r['add_fp_udf_missing_parent'] = (lambda iso, fp: iso.add_fp(fp, 5, iso_path='/NEW.;1', rr_name=_rr(c, 'new'),
                                                                  joliet_path='/new' if J else None, udf_path='/nodir/new'), U)
    r['add_fp_no_rr_name'] = (lambda iso, fp: iso.add_fp(fp, 5, iso_path='/NEW.;1'), R)
    r['add_fp_rr_on_plain'] = (lambda iso, fp: iso.add_fp(fp, 5, iso_path='/NEW.;1', rr_name='new'), not R)
    r['add_fp_joliet_on_plain'] = (lambda iso, fp: iso.add_fp(fp, 5, iso_path='/NEW.;1', rr_name=_rr(c, 'new'), joliet_path='/new'), not J)
    r['add_fp_udf_on_plain'] = (lambda iso, fp: iso.add_fp(fp, 5, iso_path='/NEW.;1', rr_name=_rr(c, 'new'), udf_path='/new'), not U)
    r['add_dir_dup'] = (lambda iso, fp: iso.add_directory(**dkw(c, 'DIR1')), True)
    r['add_dir_dup_joliet'] = (lambda iso, fp: iso.add_directory(iso_path='/DIR2', rr_name=_rr(c, 'dir2'), joliet_path='/dir1'), J)
    r['add_dir_dup_udf'] = (lambda iso, fp: iso.add_directory(iso_path='/DIR2', rr_name=_rr(c, 'dir2'), joliet_path='/dir2' if J else None, udf_path='/dir1'), U)
    r['add_dir_missing_parent'] = (lambda iso, fp: iso.add_directory(**dkw(c, 'SUB', '/NODIR')), True)
    r['add_dir_bad_name'] = (lambda iso, fp: iso.add_directory(iso_path='/bad dir', rr_name=_rr(c, 'x')), c['il'] < 4)
    r['add_link_missing_old'] = (lambda iso, fp: iso.add_hard_link(iso_old_path='/NOPE.;1', iso_new_path='/LNK.;1', rr_name=_rr(c, 'lnk')), True)
    r['add_link_dup_new'] = (lambda iso, fp: iso.add_hard_link(iso_old_path='/AAA.;1', iso_new_path='/DIR1/CCC.;1', rr_name=_rr(c, 'ccc2')), True)
    r['add_link_dup_joliet'] = (lambda iso, fp: iso.add_hard_link(iso_old_path='/AAA.;1', joliet_new_path='/aaa'), J)
    r['add_link_dup_udf'] = (lambda iso, fp: iso.add_hard_link(iso_old_path='/AAA.;1', udf_new_path='/aaa'), U)
    r['add_link_two_new'] = (lambda iso, fp: iso.add_hard_link(iso_old_path='/AAA.;1', iso_new_path='/L1.;1', joliet_new_path='/l1', rr_name=_rr(c, 'l1')), True)
    r['add_symlink_plain'] = (lambda iso, fp: iso.add_symlink(symlink_path='/SYM.;1', rr_symlink_name='sym', rr_path='/aaa'), not R)
    r['add_symlink_dup'] = (lambda iso, fp: iso.add_symlink(symlink_path='/AAA.;1', rr_symlink_name='sym', rr_path='/aaa'), R)
    r['add_symlink_dup_joliet'] = (lambda iso, fp: iso.add_symlink(symlink_path='/SYM.;1', rr_symlink_name='sym', rr_path='/aaa', joliet_path='/aaa'), R and J)
    r['add_symlink_dup_udf'] = (lambda iso, fp: iso.add_symlink(symlink_path='/SYM.;1', rr_symlink_name='sym', rr_path='/aaa',
                                                                 udf_symlink_path='/aaa', udf_target='/aaa'), R and U)
    r['rm_file_missing'] = (lambda iso, fp: iso.rm_file(iso_path='/NOPE.;1'), True)
    r['rm_file_on_dir'] = (lambda iso, fp: iso.rm_file(iso_path='/DIR1'), True)
    r['rm_dir_on_file'] = (lambda iso, fp: iso.rm_directory(iso_path='/AAA.;1'), True)
    r['rm_dir_nonempty'] = (lambda iso, fp: iso.rm_directory(**dkw(c, 'DIR1')), True)
    r['rm_dir_missing'] = (lambda iso, fp: iso.rm_directory(iso_path='/NODIR'), True)
    r['rm_dir_joliet_missing'] = (lambda iso, fp: iso.rm_directory(iso_path='/DIR1', rr_name=_rr(c, 'dir1'), joliet_path='/nodir'), J)
    r['rm_link_missing'] = (lambda iso, fp: iso.rm_hard_link(iso_path='/NOPE.;1'), True)
    r['rm_link_on_dir'] = (lambda iso, fp: iso.rm_hard_link(iso_path='/DIR1'), True)
    r['rm_link_udf_missing'] = (lambda iso, fp: iso.rm_hard_link(udf_path='/nope'), U)
    r['el_missing_bootfile'] = (lambda iso, fp: iso.add_eltorito('/NOPE.;1'), True)
    r['el_bad_media'] = (lambda iso, fp: iso.add_eltorito('/BOOT.;1', media_name='nonsense'), True)
    r['el_bad_platform'] = (lambda iso, fp: iso.add_eltorito('/BOOT.;1', platform_id=77), True)
    r['el_bootcat_dup'] = (lambda iso, fp: iso.add_eltorito('/BOOT.;1', bootcatfile='/AAA.;1'), True)
    r['el_bootcat_dup_joliet'] = (lambda iso, fp: iso.add_eltorito('/BOOT.;1', bootcatfile='/BOOT.CAT;1', rr_bootcatname=_rr(c, 'boot.cat'),
                                                                   joliet_bootcatfile='/aaa'), J)
    r['el_bootcat_dup_udf'] = (lambda iso, fp: iso.add_eltorito('/BOOT.;1', bootcatfile='/BOOT.CAT;1', rr_bootcatname=_rr(c, 'boot.cat'),
                                                                joliet_bootcatfile='/boot.cat' if J else None, udf_bootcatfile='/aaa'), U)
    r['el_bootcat_missing_parent'] = (lambda iso, fp: iso.add_eltorito('/BOOT.;1', bootcatfile='/NODIR/BOOT.CAT;1', rr_bootcatname=_rr(c, 'boot.cat')), True)
    r['el_rm_none'] = (lambda iso, fp: iso.rm_eltorito(), True)
    r['el_hybrid_none'] = (lambda iso, fp: iso.add_isohybrid(), True)
    r['elx_rm_boot_file'] = (lambda iso, fp: iso.rm_file(iso_path='/BOOT.;1'), True)
    r['elx_rm_boot_file_by_link'] = (lambda iso, fp: iso.rm_file(iso_path='/DIR1/BOOTLNK.;1'), True)
    r['elx_rm_boot_file_joliet'] = (lambda iso, fp: iso.rm_file(joliet_path='/boot'), J)
    r['elx_rm_boot_file_udf'] = (lambda iso, fp: iso.rm_file(udf_path='/boot'), U)
    r['elx_rm_bootcat'] = (lambda iso, fp: iso.rm_file(iso_path='/BOOT.CAT;1'), True)
    r['elx_rm_bootcat_link'] = (lambda iso, fp: iso.rm_hard_link(iso_path='/BOOT.CAT;1'), True)
    r['elx_add_eltorito_dup_catalog'] = (lambda iso, fp: iso.add_eltorito('/AAA.;1', bootcatfile='/OTHER.CAT;1'), True)
    r['elx_rm_dir_with_link'] = (lambda iso, fp: iso.rm_directory(**dkw(c, 'DIR1')), True)
    r['set_hidden_missing'] = (lambda iso, fp: iso.set_hidden(iso_path='/NOPE.;1'), True)
    return r


def _eq(da, db):
    if len(da) != len(db):
        return False
    ok = True
    for x, y in zip(da, db):
        ok = ok & (x == y)
    return ok


def refuse(l0: int, l1: int) -> bool:
    """
    pre: 0 <= l0 <= MAXLEN and 0 <= l1 <= MAXLEN
    post: _
    """
    global LAST_DETAIL
    c = CFG
    fp = h.InFP()
    call, _app = recipes(c)[RECIPE]
    a = _base(c, [l0, l1], fp)
    a.force_consistency()
    before = skel.digest(a)
    raised = False
    try:
        call(a, fp)
    except pycdlibexception.PyCdlibException:
        raised = True
    if not raised:
        # C14 speaks about calls that RAISE; whether this call should have been refused is C13's question (C13.c checks it)
        LAST_DETAIL = 'recipe %s was accepted' % RECIPE
        return h.post(True)
    a.force_consistency()
    after = skel.digest(a)
    ok = _eq(before, after) & skel.spans_ok(a, skel.collect_spans(a))
    # later edits behave normally: same accepted edit on a twin that never saw the refused call
    b = _base(c, [l0, l1], fp)
    for iso in (a, b):
        iso.add_fp(fp, l0, **fkw(c, 'ZZZ'))
        iso.rm_file(iso_path='/AAA.;1')
        iso.force_consistency()
    ok = ok & _eq(skel.digest(a), skel.digest(b))
    return h.post(ok)


META = {
    'explanation': 'C14: a catalogue of refusal recipes (public mutator x argument that must be refused, in the first, second or third namespace, missing '
                   'parents, wrong entry types, wrong object state, invalid boot parameters) applied to an object with symbolic file lengths; the whole '
                   'allocation digest must be unchanged after the refusal and later edits must behave as on a twin.',
    'assumptions': ['the catalogue is an enumerated bound (listed per obligation); refusal sites without a recipe are not covered',
                    'exceptions that are not refusals (I/O errors) are outside',
                    '"same bytes" is decided on the digest (every quantity that reaches the image) rather than on written bytes'],
}

MANIFEST = {
    'text': 'Bounded symbolic model checking of failure atomicity: for each catalogued refusal and configuration z3 decides for all file lengths that '
            'the object state (allocation digest) after a refused call equals the state before it, and that subsequent edits behave as on a twin object.',
    'note': 'Bounded by the refusal catalogue (see obligations), configuration list and length interval. Trusted: CrossHair, z3.',
    'technique': 'symbolic execution of real mutators on refusing arguments (CrossHair + z3), digest before/after + twin differential',
}


def obligations(tier):
    quick = tier == 'quick'
    cfgs = [skel.cfg_of(3, 3, '1.09', True, False), skel.cfg_of(3, None, None, False, False)] if quick else skel.quick_cfgs() + [skel.cfg_of(1, 1, '1.12', False, True), skel.cfg_of(4, 3, None, True, False)]
    obs = []
    for c in cfgs:
        for name, (_call, app) in sorted(recipes(c).items()):
            if not app:
                continue
            obs.append({'name': 'C14.a/%s/%s' % (name, skel.cfg_name(c)), 'module': __name__, 'func': 'refuse',
                        'params': {'cfg': c, 'recipe': name}, 'cond_timeout': 600, 'path_timeout': 100,
                        'bounds': 'refusal recipe %s; config %s; two lengths in [0, 0x3ffff800]' % (name, skel.cfg_name(c)),
                        'functions': ['PyCdlib.add_fp', 'PyCdlib._add_fp', 'PyCdlib.add_directory', 'PyCdlib.add_hard_link', 'PyCdlib.add_symlink',
                                      'PyCdlib.add_eltorito', 'PyCdlib.rm_file', 'PyCdlib.rm_directory', 'PyCdlib.rm_hard_link', 'PyCdlib.rm_eltorito',
                                      'PyCdlib.add_isohybrid', 'PyCdlib.set_hidden', 'PyCdlib.modify_file_in_place'],
                        'samples': [(1, 2049)], 'stubs': ['M_rand', 'constant clock', 'Span file data']})
    return obs
