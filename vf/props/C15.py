"""C15 Hostile or damaged images (DESIGN section 2, C15): construction (P) -- a valid template image produced by the REAL writer
at check time, one field group (<= 8 bytes) replaced by symbolic bytes, the REAL open_fp run on it."""
import io

from vf import h

h.fix_env()
import pycdlib  # noqa: E402
from pycdlib import pycdlibexception  # noqa: E402

TEMPLATE = h.P.get('template', 'T1')
WIN = h.P.get('win', 'root_rec3_dlen')
TRUNC_MAX = None


class Budget(Exception):
    """the parser read more than 64x the image: non-termination / amplification suspect"""


def _build(template):
    iso = pycdlib.PyCdlib()
    info = {}
    if template == 'T1':
        iso.new(interchange_level=1)
        iso.add_directory('/DIR1')
        iso.add_fp(io.BytesIO(b'hello'), 5, '/DIR1/FOO.;1')
        iso.add_fp(io.BytesIO(b'x' * 3000), 3000, '/BAR.;1')
    elif template == 'T2':
        iso.new(interchange_level=3, joliet=3, rock_ridge='1.09')
        iso.add_directory('/DIR1', rr_name='dir1', joliet_path='/dir1')
        iso.add_fp(io.BytesIO(b'hello'), 5, '/DIR1/FOO.;1', rr_name='foo' + 'x' * 200, joliet_path='/dir1/foo')
        iso.add_fp(io.BytesIO(b'x' * 3000), 3000, '/BAR.;1', rr_name='bar', joliet_path='/bar')
        iso.add_symlink('/SYM.;1', 'sym', 'bar', joliet_path='/sym')
    elif template == 'T3':
        iso.new(interchange_level=3)
        iso.add_fp(io.BytesIO(b'b' * 2048), 2048, '/BOOT.;1')
        iso.add_fp(io.BytesIO(b'e' * 1024), 1024, '/EFI.;1')
        iso.add_eltorito('/BOOT.;1', bootcatfile='/BOOT.CAT;1')
        iso.add_eltorito('/EFI.;1', efi=True)
    elif template == 'T4':
        iso.new(interchange_level=3, udf='2.60')
        iso.add_directory('/DIR1', udf_path='/dir1')
        iso.add_fp(io.BytesIO(b'hello'), 5, '/DIR1/FOO.;1', udf_path='/dir1/foo')
        iso.add_fp(io.BytesIO(b'x' * 3000), 3000, '/BAR.;1', udf_path='/bar')
    out = io.BytesIO()
    iso.write_fp(out)
    root = iso.pvd.root_directory_record()
    info['root_ext'] = root.extent_location()
    info['ptr_le'] = iso.pvd.path_table_location_le
    info['ptr_be'] = iso.pvd.path_table_location_be
    d1 = [c for c in root.children if c.file_ident == b'DIR1']
    info['dir1_ext'] = d1[0].extent_location() if d1 else None
    if iso.joliet_vd is not None:
        info['svd_ext'] = iso.joliet_vd.extent_location()
        info['jroot_ext'] = iso.joliet_vd.root_directory_record().extent_location()
    if iso.eltorito_boot_catalog is not None:
        info['cat_ext'] = iso.eltorito_boot_catalog.extent_location()
        info['br_ext'] = iso.brs[0].extent_location()
    ce = [c for c in (d1[0].children if d1 else []) if c.rock_ridge is not None and c.rock_ridge.dr_entries.ce_record is not None]
    if ce:
        r = ce[0].rock_ridge.dr_entries.ce_record
        info['ce_pos'] = r.bl_cont_area * 2048 + r.offset_cont_area
        info['ce_rec'] = (d1[0].extent_location(), [c.dr_len for c in d1[0].children], d1[0].children.index(ce[0]))
    info['root_lens'] = [c.dr_len for c in root.children]
    if iso._has_udf:
        info['udf_fsd'] = iso.udf_file_set.extent_location()
        info['udf_root_fe'] = iso.udf_root.extent_location()
        info['udf_lvd'] = iso.udf_main_descs.logical_volumes[0].extent_location()
        info['udf_pd'] = iso.udf_main_descs.partitions[0].extent_location()
        info['udf_fid'] = iso.udf_root.fi_descs[0].extent_location()
    iso.close()
    return out.getvalue(), info


IMG, INFO = _build(TEMPLATE)
h.install_struct_model()      # AFTER the template was written with the real struct


def windows(template, info):
    """name -> (offset, width, description)"""
    w = {}
    pvd = 16 * 2048
    w['pvd_type_id'] = (pvd, 7, 'PVD type, standard identifier, version')
    w['pvd_space_size'] = (pvd + 80, 8, 'PVD volume space size LE+BE')
    w['pvd_setsize_seq'] = (pvd + 120, 8, 'PVD volume set size and sequence number LE+BE')
    w['pvd_lbs'] = (pvd + 128, 4, 'PVD logical block size LE+BE')
    w['pvd_ptr_size'] = (pvd + 132, 8, 'PVD path table size LE+BE')
    w['pvd_ptr_loc'] = (pvd + 140, 8, 'PVD path table locations (LE table, optional LE table)')
    w['pvd_ptr_loc_be'] = (pvd + 148, 8, 'PVD path table locations (BE table, optional BE table)')
    w['pvd_root_hdr'] = (pvd + 156, 2, 'root directory record: length and xattr length')
    w['pvd_root_extent'] = (pvd + 158, 8, 'root directory record: extent LE+BE')
    w['pvd_root_dlen'] = (pvd + 166, 8, 'root directory record: data length LE+BE')
    w['pvd_root_flags'] = (pvd + 181, 8, 'root directory record: flags, unit, gap, seqnum, len_fi (first 8 bytes)')
    w['pvd_fsver'] = (pvd + 881, 2, 'PVD file structure version + reserved')
    w['vdst'] = (17 * 2048 if template in ('T1',) else pvd + 2048, 7, 'descriptor after the PVD: type, identifier, version')
    root = info['root_ext'] * 2048
    lens = info['root_lens']
    third = root + lens[0] + lens[1]
    w['root_dot_hdr'] = (root, 2, 'root "." record: length, xattr length')
    w['root_dot_extent'] = (root + 2, 8, 'root "." record: extent LE+BE')
    w['root_dot_dlen'] = (root + 10, 8, 'root "." record: data length')
    w['root_dotdot_extent'] = (root + lens[0] + 2, 8, 'root ".." record: extent')
    w['root_rec3_len'] = (third, 1, 'first real child: record length byte')
    w['root_rec3_xattr'] = (third + 1, 1, 'first real child: extended attribute length')
    w['root_rec3_extent'] = (third + 2, 8, 'first real child: extent LE+BE')
    w['root_rec3_dlen'] = (third + 10, 8, 'first real child: data length LE+BE')
    w['root_rec3_date'] = (third + 18, 7, 'first real child: recording date')
    w['root_rec3_flags'] = (third + 25, 7, 'first real child: flags, unit size, gap, seqnum')
    w['root_rec3_lenfi'] = (third + 32, 1, 'first real child: identifier length')
    w['root_rec3_ident'] = (third + 33, 6, 'first real child: identifier bytes')
    if len(lens) > 3:
        fourth = third + lens[2]
        w['root_rec4_len'] = (fourth, 1, 'second real child: record length byte')
        w['root_rec4_extent'] = (fourth + 2, 8, 'second real child (a directory): extent')
        w['root_rec4_dlen'] = (fourth + 10, 8, 'second real child: data length')
        w['root_rec4_flags'] = (fourth + 25, 8, 'second real child: flags .. len_fi')
    ptr = info['ptr_le'] * 2048
    w['ptr_rec1'] = (ptr, 8, 'LE path table record 1: len_di, xattr, extent, parent')
    w['ptr_rec2'] = (ptr + 10, 8, 'LE path table record 2: len_di, xattr, extent, parent')
    w['ptr_be_rec1'] = (info['ptr_be'] * 2048, 8, 'BE path table record 1')
    if info.get('dir1_ext'):
        d1 = info['dir1_ext'] * 2048
        w['dir1_dot_extent'] = (d1 + 2, 8, 'sub-directory "." extent')
        w['dir1_dotdot_extent'] = (d1 + 34 + 2 if template == 'T1' else d1 + 2, 8, 'sub-directory dot/dotdot extent')
    if 'svd_ext' in info:
        svd = info['svd_ext'] * 2048
        w['svd_type_id'] = (svd, 7, 'SVD type, identifier, version')
        w['svd_escape'] = (svd + 88, 8, 'SVD escape sequences')
        w['svd_root_extent'] = (svd + 158, 8, 'Joliet root record extent')
        w['svd_root_dlen'] = (svd + 166, 8, 'Joliet root record data length')
        w['svd_ptr'] = (svd + 132, 8, 'SVD path table size')
        jr = info['jroot_ext'] * 2048
        w['jroot_rec3_len'] = (jr + 68, 1, 'Joliet first child: record length')
        w['jroot_rec3_lenfi'] = (jr + 68 + 32, 1, 'Joliet first child: identifier length')
    if 'ce_pos' in info:
        ext, dlens, idx = info['ce_rec']
        rec = ext * 2048 + sum(dlens[:idx])
        w['rr_su_first'] = (rec + 33 + 8 + (1 - (8 % 2)), 4, 'Rock Ridge record: first system-use entry header (signature, length, version)')
        w['rr_ce_area'] = (info['ce_pos'], 4, 'continuation area: first entry header')
        w['rr_ce_area_len'] = (info['ce_pos'] + 2, 2, 'continuation area: first entry length and version')
    if 'cat_ext' in info:
        cat = info['cat_ext'] * 2048
        w['br_catptr'] = (info['br_ext'] * 2048 + 71, 4, 'boot record: catalog pointer')
        w['br_ident'] = (info['br_ext'] * 2048, 8, 'boot record: type, identifier, version')
        w['cat_validation'] = (cat, 8, 'validation entry: header, platform, reserved, id')
        w['cat_validation_tail'] = (cat + 28, 4, 'validation entry: checksum, key bytes')
        w['cat_initial'] = (cat + 32, 8, 'initial entry: indicator, media, load segment, system type, unused, sector count')
        w['cat_initial_rba'] = (cat + 40, 4, 'initial entry: load rba')
        w['cat_section_hdr'] = (cat + 64, 8, 'section header: indicator, platform, count, id')
        w['cat_section_entry'] = (cat + 96, 8, 'section entry: indicator, media ...')
        w['cat_after'] = (cat + 128, 8, 'entry after the last section entry')
    if 'udf_fsd' in info:
        for nm, key in (('udf_anchor', 256), ('udf_fsd', info['udf_fsd']), ('udf_root_fe', info['udf_root_fe']), ('udf_lvd', info['udf_lvd']),
                        ('udf_pd', info['udf_pd']), ('udf_fid', info['udf_fid'])):
            w[nm + '_tag'] = (key * 2048, 8, '%s: tag identifier, version, checksum, reserved, serial' % nm)
            w[nm + '_taglen'] = (key * 2048 + 8, 8, '%s: tag CRC, CRC length, location' % nm)
        w['udf_anchor_body'] = (256 * 2048 + 16, 8, 'anchor: main VDS extent length and location')
        w['udf_fsd_rooticb'] = (info['udf_fsd'] * 2048 + 400, 8, 'file set descriptor: root ICB length and block')
        w['udf_root_fe_lens'] = (info['udf_root_fe'] * 2048 + 168, 8, 'root file entry: L_EA and L_AD')
        w['udf_root_fe_ad'] = (info['udf_root_fe'] * 2048 + 176, 8, 'root file entry: first allocation descriptor')
        w['udf_fid_body'] = (info['udf_fid'] * 2048 + 16, 8, 'first file identifier: version, characteristics, L_FI, ICB')
        w['udf_fid_liu'] = (info['udf_fid'] * 2048 + 36, 2, 'first file identifier: L_IU')
        w['udf_bea'] = (18 * 2048, 7, 'BEA01 recognition descriptor')
        # a whole structure blanked (an unwritten / zeroed sector) with only its tag symbolic: the all-zero tag is the blank sector itself
        BLANK['udf_root_fe_blank'] = (info['udf_root_fe'] * 2048, info['udf_root_fe'] * 2048 + 2048)
        w['udf_root_fe_blank'] = (info['udf_root_fe'] * 2048, 8, 'root file entry: sector zeroed, tag bytes symbolic')
        BLANK['udf_fsd_blank'] = (info['udf_fsd'] * 2048, info['udf_fsd'] * 2048 + 2048)
        w['udf_fsd_blank'] = (info['udf_fsd'] * 2048, 8, 'file set descriptor: sector zeroed, tag bytes symbolic')
        w['udf_nsr'] = (19 * 2048, 7, 'NSR descriptor')
    # blank sectors (an unwritten / zeroed sector where a structure is expected), first 8 bytes symbolic: generic over the structures
    blanks = [('vdst', 17 if 'br_ext' not in info and 'svd_ext' not in info else None), ('root_dir', info['root_ext']), ('ptr_le', info['ptr_le']), ('ptr_be', info['ptr_be']),
              ('dir1', info.get('dir1_ext')), ('svd', info.get('svd_ext')), ('jroot', info.get('jroot_ext')),
              ('ce', info['ce_pos'] // 2048 if 'ce_pos' in info else None), ('br', info.get('br_ext')), ('cat', info.get('cat_ext')),
              ('udf_lvd', info.get('udf_lvd')), ('udf_pd', info.get('udf_pd')), ('udf_fid', info.get('udf_fid')), ('udf_anchor', 256 if 'udf_fsd' in info else None)]
    for nm, sec in blanks:
        if sec is not None:
            BLANK[nm + '_blank'] = (sec * 2048, sec * 2048 + 2048)
            w[nm + '_blank'] = (sec * 2048, 8, '%s: sector zeroed, first 8 bytes symbolic' % nm)
    # extent fields: a fully symbolic extent makes the image model enumerate every read position (measured: > 1000 paths, not
    # exhausted in 15 min).  They are split into the LOW byte (all 256 sectors around/inside the ~30-sector template: self, parent,
    # sibling, data, beyond the end) and the third byte (65536-sector steps: far outside the image).
    out = {}
    for nm, (off, width, desc) in w.items():
        if nm.endswith('_extent') or nm in ('pvd_ptr_loc', 'pvd_ptr_loc_be', 'br_catptr', 'cat_initial_rba'):
            out[nm + '_lo'] = (off, 1, desc + ' -- low byte of the little-endian value')
            out[nm + '_far'] = (off + 2, 1, desc + ' -- third byte (x65536)')
        else:
            out[nm] = (off, width, desc)
    return out


BLANK = {}
WINDOWS = windows(TEMPLATE, INFO)


class ListImage:
    """image backed by a list of (concrete or symbolic) byte values; short reads at EOF like BytesIO; read budget"""
    mode = 'rb'

    def __init__(self, data):
        self.data = data
        self.pos = 0
        self.n = len(data)
        self.budget = 64 * self.n + 65536

    def seek(self, off, whence=0):
        if whence == 0:
            self.pos = off
        elif whence == 1:
            self.pos = self.pos + off
        else:
            self.pos = self.n + off
        if self.pos < 0:
            raise ValueError('negative seek position')
        return self.pos

    def tell(self):
        return self.pos

    def read(self, n=-1):
        if n is None or n < 0:
            n = self.n
        start = min(self.pos, self.n)
        end = min(self.n, start + n)
        self.budget -= (end - start) + 1
        if self.budget < 0:
            raise Budget('read budget exhausted: the parser does not terminate or re-reads the image out of proportion')
        out = bytes(self.data[start:end])
        self.pos = end if self.pos <= self.n else self.pos
        return out


def corrupt(b: bytes) -> bool:
    """
    pre: len(b) == WIDTH
    post: _
    """
    off, width, _d = WINDOWS[WIN]
    if RANGES and not _in_ranges(b[0]):
        return True
    data = list(IMG)
    if WIN in BLANK:
        for i in range(BLANK[WIN][0], BLANK[WIN][1]):
            data[i] = 0
    for i in range(width):
        data[off + i] = b[i]
    iso = pycdlib.PyCdlib()
    try:
        iso.open_fp(ListImage(data))
    except pycdlibexception.PyCdlibException:
        return h.post(True)
    return h.post(True)


def truncate(n: int) -> bool:
    """
    pre: 0 <= n <= NSECT
    post: _
    """
    # C15.b: the template cut after n whole 512-byte units (every structure boundary and mid-sector cuts)
    data = list(IMG[:n * 512])
    iso = pycdlib.PyCdlib()
    try:
        iso.open_fp(ListImage(data))
    except pycdlibexception.PyCdlibException:
        return h.post(True)
    return h.post(True)


WIDTH = WINDOWS[WIN][1] if WIN in WINDOWS else 1
NSECT = len(IMG) // 512

META = {
    'validate': ['struct_model_vs_struct'],
    'explanation': 'C15: templates are written by the real writer at check time (T1 plain, T2 Rock Ridge+Joliet with continuation area and symlink, '
                   'T3 El Torito with two sections, T4 UDF); for each catalogued field group of each structure the parser follows, the bytes of the group '
                   'are symbolic and the real open_fp runs on the patched image under M_struct; only PyCdlibException may escape; a read budget of 64x '
                   'the image size stands for termination.',
    'assumptions': ['ONE corrupted field group (<= 8 bytes) at a time on four templates; combinations of corruptions, and structures not in the window '
                    'catalogue, are outside', 'truncation at 512-byte granularity',
                    'termination is approximated by a read budget (64x image size) and the per-path time limit (an exhausted time limit is '
                    'inconclusive, an exhausted read budget is a violation)'],
}

MANIFEST = {
    'text': 'Bounded symbolic model checking of the parser: for each catalogued field group of each structure of four real templates z3 explores ALL values '
            'of the group (up to 2^64 per window) through the real open_fp and decides that nothing but the documented exception types escapes and '
            'that parsing stays within a read budget.',
    'note': 'Single-structure corruption bound; window catalogue and templates listed in the evidence. Trusted: CrossHair, z3, M_struct, list-backed image model.',
    'technique': 'symbolic execution of real open_fp (CrossHair + z3) on a valid image with a symbolic field group',
}

# Sizing (DESIGN C15): a (template, window) pair is part of the claim only if it was MEASURED to exhaust inside the tier budget on the
# repaired tree; windows that did not exhaust in 900 s (symbolic data lengths / path-table records / UDF bodies: hundreds of paths at
# ~1-2 s per real open_fp) are outside the claim and are not run.
QUICK = {
    'T1': ['root_rec3_dlen'],
    'T2': ['svd_escape'],
    'T3': ['cat_initial', 'cat_section_entry', 'cat_after'],
    'T4': ['udf_anchor_tag', 'udf_root_fe_blank', 'udf_fsd_blank'],
}
THOROUGH = {
    'T1': ['root_rec3_dlen', 'root_dot_extent_lo', 'root_rec3_extent_lo', 'root_rec3_flags', 'root_rec3_len'],
    'T2': ['svd_escape'],
    'T3': ['cat_initial', 'cat_section_entry', 'cat_after'],
    'T4': ['udf_anchor_tag', 'udf_root_fe_blank', 'udf_fsd_blank'],
}
# one-byte windows restricted to the interesting value ranges in the quick tier (each value costs one full open_fp under tracing)
QUICK_RANGED = {
    'T1': [('root_rec3_len', [[0, 40], [250, 255]]), ('root_rec3_lenfi', [[0, 12], [200, 255]])],
}
# blank-sector windows (sector zeroed, first 8 bytes symbolic).  Measured (16 cores busy): cat / udf_anchor / udf_fid / udf_fsd / udf_root_fe
# exhaust in < 60 s; svd / br / vdst in 6-7 min (1300 paths: thorough tier); root_dir / dir1 / ptr_le / ptr_be / jroot / ce / udf_lvd / udf_pd did
# NOT exhaust in 900 s (a blank directory or descriptor keeps the parser walking the rest of the template symbolically): outside the claim, not run.
BLANK_QUICK = {'T3': ['cat_blank'], 'T4': ['udf_anchor_blank', 'udf_fid_blank']}
BLANK_THOROUGH = {'T1': ['vdst_blank'], 'T2': ['svd_blank'], 'T3': ['cat_blank', 'br_blank'], 'T4': ['udf_anchor_blank', 'udf_fid_blank', 'vdst_blank']}
for _t in BLANK_QUICK:
    QUICK[_t] = QUICK[_t] + BLANK_QUICK[_t]
for _t in BLANK_THOROUGH:
    THOROUGH[_t] = THOROUGH[_t] + BLANK_THOROUGH[_t]
RANGES = h.P.get('ranges')


def _in_ranges(v):
    if not RANGES:
        return True
    ok = False
    for lo, hi in RANGES:
        ok = ok | ((lo <= v) & (v <= hi))
    return ok


def obligations(tier):
    import os
    obs = []
    for t in ('T1', 'T2', 'T3', 'T4'):
        img, info = (IMG, INFO) if t == TEMPLATE else _build_plan(t)
        wins = windows(t, info)
        names = QUICK[t] if tier == 'quick' else THOROUGH[t]
        for wn in names:
            if wn not in wins:
                continue
            off, width, desc = wins[wn]
            obs.append({'name': 'C15.a/%s/%s' % (t, wn), 'module': __name__, 'func': 'corrupt', 'params': {'template': t, 'win': wn},
                        'cond_timeout': 900 if tier == 'quick' else 3000, 'path_timeout': 120,
                        'bounds': 'template %s (%d bytes); bytes %d..%d symbolic (%s); all 2^%d values' % (t, len(img), off, off + width - 1, desc, 8 * width),
                        'functions': ['PyCdlib.open_fp', 'PyCdlib._open_fp', 'PyCdlib._parse_volume_descriptors', 'PyCdlib._walk_directories',
                                      'PyCdlib._parse_path_table', 'DirectoryRecord.parse', 'RockRidge.parse', 'PyCdlib._parse_udf_descriptors',
                                      'PyCdlib._walk_udf_directories', 'EltoritoBootCatalog.parse', 'PathTableRecord.parse'],
                        'stubs': ['M_struct', 'list-backed image with read budget', 'constant clock']})
        for wn, rng in (QUICK_RANGED.get(t, []) if tier == 'quick' else []):
            off, width, desc = wins[wn]
            obs.append({'name': 'C15.a/%s/%s[ranged]' % (t, wn), 'module': __name__, 'func': 'corrupt', 'params': {'template': t, 'win': wn, 'ranges': rng},
                        'cond_timeout': 900, 'path_timeout': 120,
                        'bounds': 'template %s; byte %d symbolic (%s); values in %s' % (t, off, desc, rng),
                        'functions': ['PyCdlib.open_fp', 'PyCdlib._walk_directories', 'DirectoryRecord.parse'], 'stubs': ['M_struct', 'list-backed image with read budget']})
        if tier != 'quick' or t == 'T1':
            obs.append({'name': 'C15.b/%s/truncate' % t, 'module': __name__, 'func': 'truncate', 'params': {'template': t}, 'cond_timeout': 1500, 'path_timeout': 120,
                        'bounds': 'template %s cut after n*512 bytes, n in [0, %d]' % (t, len(img) // 512),
                        'functions': ['PyCdlib.open_fp'], 'stubs': ['M_struct', 'list-backed image']})
    return obs


_PLAN = {}


def _build_plan(t):
    if t not in _PLAN:
        _PLAN[t] = _build(t)
    return _PLAN[t]
