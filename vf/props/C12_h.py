"""C12 CrossHair harnesses (no z3 import: replays run under the repository interpreter)."""
from vf import h, skel

h.fix_env()
h.install_struct_model()
from pycdlib import isohybrid  # noqa: E402

HEADS = int(h.P.get('heads', 64))
SECTORS = int(h.P.get('sectors', 32))
NMAX = int(h.P.get('nmax', 1 << 22))          # image size in 2048-byte sectors
NMIN = int(h.P.get('nmin', 1))
POMAX = int(h.P.get('pomax', 8))
CFG = h.P.get('cfg') or skel.cfg_of()


def le32(b, off):
    return b[off] + 256 * b[off + 1] + 65536 * b[off + 2] + 16777216 * b[off + 3]


def mbr(n: int, part_offset: int, part_entry: int, ptype: int, mbr_id: int, ext: int) -> bool:
    """
    pre: NMIN <= n <= NMAX
    pre: 0 <= part_offset <= POMAX and 1 <= part_entry <= 4 and 0 <= ptype <= 255 and 0 <= mbr_id <= 4294967295
    pre: 16 <= ext <= 100000
    post: _
    """
    # C12.a: IsoHybrid.new / record / record_padding for one geometry (concrete heads x sectors), all image sizes n*2048,
    # decoded from the 512 recorded bytes by plain byte arithmetic
    hy = isohybrid.IsoHybrid()
    hy.new(False, False, part_entry, mbr_id, part_offset, SECTORS, HEADS, ptype)
    hy.update_rba(ext)
    size = n * 2048
    rec = hy.record(size)
    # record_padding(size) is `b'\\x00' * _calc_cc(size)[1]`: a bytes object of symbolic length makes CrossHair enumerate the
    # length, so the padding LENGTH is taken from the real _calc_cc (the multiplication itself is outside the claim)
    padlen = hy._calc_cc(size)[1]
    cyl = HEADS * SECTORS * 512
    total = size + padlen
    ok = (len(rec) == 512) & (rec[510] == 0x55) & (rec[511] == 0xaa)
    ok = ok & (total % cyl == 0) & (padlen < cyl) & (padlen >= 0)
    ok = ok & (le32(rec, 432) == 4 * ext) & (le32(rec, 440) == mbr_id)
    active = 0
    for i in range(4):
        o = 446 + 16 * i
        if i + 1 == part_entry:
            ok = ok & (rec[o] == 0x80) & (rec[o + 4] == ptype)
            ok = ok & (le32(rec, o + 8) == part_offset)
            # the partition covers the cylinder-padded image: start + size == padded image in 512-byte sectors
            ok = ok & (le32(rec, o + 8) + le32(rec, o + 12) == total // 512)
            ok = ok & (rec[o + 5] == HEADS - 1) & (rec[o + 6] % 64 == SECTORS)
            cylno = (rec[o + 6] // 64) * 256 + rec[o + 7]
            ok = ok & (cylno == min(total // cyl, 1024) - 1)
            active += 1
        else:
            for k in range(16):
                ok = ok & (rec[o + k] == 0)
    # ... and the library's own parser recovers the geometry it was given from those bytes (re-mastering an opened hybrid image pads to
    # the same cylinder size): parse(record(x)) has x's heads, sectors, offset, entry, rba, id and type
    hy2 = isohybrid.IsoHybrid()
    hy2.parse(rec)
    ok = ok & (hy2.geometry_heads == HEADS) & (hy2.geometry_sectors == SECTORS) & (hy2.part_offset == part_offset) & (hy2.part_entry == part_entry)
    ok = ok & (hy2.rba == 4 * ext) & (hy2.mbr_id == mbr_id) & (hy2.ptype == ptype)
    return h.post(ok & (active == 1))


def hybrid_layout(l0: int, l1: int, l2: int) -> bool:
    """
    pre: 1 <= l0 <= 100000 and 1 <= l1 <= 100000 and 1 <= l2 <= 100000
    post: _
    """
    # C12.c: three boot files of DIFFERENT symbolic sizes (BIOS, EFI, Mac sections) + isohybrid(mac=True): after extent assignment the
    # MBR/GPT fields delimit exactly the El Torito images they describe
    c = CFG
    # M_rand for this obligation: every uuid4() call returns a DIFFERENT value (a per-run counter), as the real one does with
    # overwhelming probability -- otherwise independently drawn GUIDs would look equal
    import itertools
    import uuid
    cnt = itertools.count(100)
    uuid.uuid4 = lambda: uuid.UUID(int=next(cnt))
    iso = skel.new_iso(c)
    fp = skel.BootFP()
    iso.add_fp(fp, l0, **skel.fkw(c, 'ISOLINUX'))
    iso.add_fp(fp, l1, **skel.fkw(c, 'EFIBOOT'))
    iso.add_fp(fp, l2, **skel.fkw(c, 'MACBOOT'))
    iso.add_eltorito('/ISOLINUX.;1', boot_load_size=4, rr_bootcatname='boot.cat' if c['rr'] else None)
    iso.add_eltorito('/EFIBOOT.;1', efi=True)
    iso.add_eltorito('/MACBOOT.;1', efi=True)
    iso.add_isohybrid(mac=True)
    iso.force_consistency()
    hy = iso.isohybrid_mbr
    cat = iso.eltorito_boot_catalog
    e_efi = cat.sections[0].section_entries[0]
    e_mac = cat.sections[1].section_entries[0]
    ok = (hy.rba == 4 * cat.initial_entry.inode.extent_location())
    ok = ok & (hy.efi_lba == e_efi.inode.extent_location()) & (hy.efi_count == e_efi.sector_count)
    ok = ok & (hy.mac_lba == e_mac.inode.extent_location()) & (hy.mac_count == e_mac.sector_count)
    for g in (hy.primary_gpt, hy.secondary_gpt):
        ok = ok & (g.parts[1].first_lba == 4 * e_efi.inode.extent_location()) & (g.parts[1].last_lba == 4 * e_efi.inode.extent_location() + e_efi.sector_count - 1)
        ok = ok & (g.parts[2].first_lba == 4 * e_mac.inode.extent_location()) & (g.parts[2].last_lba == 4 * e_mac.inode.extent_location() + e_mac.sector_count - 1)
    ok = ok & (e_efi.load_rba == e_efi.inode.extent_location()) & (e_mac.load_rba == e_mac.inode.extent_location())
    if h.P.get('apm'):
        # C12.c/apm: ONLY the Apple partition map entries of the EFI and Mac images (kept apart: recorded finding).  Entry k (k = 1, 2)
        # must delimit the corresponding El Torito image, in 2048-byte map blocks or in 512-byte sectors
        ap = hy.primary_gpt.apm_parts
        if len(ap) != 3:
            return False
        okk = True
        for part, e in ((ap[1], e_efi), (ap[2], e_mac)):
            ext = e.inode.extent_location()
            okk = okk & (((part.start_block == ext) & (part.block_count * 4 >= e.sector_count) & (part.block_count * 4 < e.sector_count + 4)) |
                         ((part.start_block == 4 * ext) & (part.block_count == e.sector_count)))
        return h.post(okk)
    # primary and backup GPT mirror each other: same disk GUID, the same partition entries byte for byte (real GPTPartHeader.record),
    # and the headers name each other's sector
    pg, sg = hy.primary_gpt, hy.secondary_gpt
    if pg.header.disk_guid != sg.header.disk_guid or len(pg.parts) != len(sg.parts) or len(pg.parts) != 3:
        return False
    for pa, pb in zip(pg.parts, sg.parts):
        ra, rb = pa.record(), pb.record()
        if len(ra) != 128 or len(rb) != 128:
            return False
        for i in range(128):
            ok = ok & (ra[i] == rb[i])
    ok = ok & (pg.header.current_lba == 1) & (pg.header.backup_lba == sg.header.current_lba) & (sg.header.backup_lba == 1)
    ok = ok & (pg.header.first_usable_lba == sg.header.first_usable_lba) & (pg.header.last_usable_lba == sg.header.last_usable_lba)
    ok = ok & (sg.header.partition_entries_lba + 32 == sg.header.current_lba)
    if not h.SYM:
        # concrete runs only (declared samples and replays): the primary and the backup table as RECORDED, validated the way the UEFI
        # specification says (header CRC-32 over the 92 header bytes with its own field zero; entry-array CRC-32 over
        # NumberOfPartitionEntries * SizeOfPartitionEntry bytes) with zlib's CRC-32, not the library's
        import struct as _st
        import zlib
        for g in (pg, sg):
            raw = g.record()
            if g.is_primary:
                hdr, arr = raw[:512], raw[len(raw) - 128 * 128:]
            else:
                hdr, arr = raw[len(raw) - 512:], raw[:128 * 128]
            if hdr[:8] != b'EFI PART':
                return False
            hsize, hcrc = _st.unpack_from('<LL', hdr, 12)
            nparts, psize, acrc = _st.unpack_from('<LLL', hdr, 80)
            if hsize != 92 or nparts * psize != len(arr):
                return False
            if zlib.crc32(hdr[:16] + b'\x00\x00\x00\x00' + hdr[20:92]) & 0xffffffff != hcrc:
                return False
            if zlib.crc32(arr) & 0xffffffff != acrc:
                return False
    # the RECORDED protective MBR (bytes 0..511 of the image): entries 2 and 3 decoded from the bytes the real record() emits
    # (the GPT blob that follows is cut off: its CRC-32 is outside this obligation)
    import pycdlib.isohybrid as _ih
    _gr = _ih.GPT.record
    _ih.GPT.record = lambda self: b''
    try:
        raw = hy.record(iso.pvd.space_size * 2048)
    finally:
        _ih.GPT.record = _gr
    if len(raw) != 512 or raw[510:512] != b'\x55\xaa':
        return False
    ok = ok & (le32(raw, 432) == hy.rba)
    e2, e3 = raw[446 + 16:446 + 32], raw[446 + 32:446 + 48]
    if e2[4] != 0xef:
        return False
    ok = ok & (le32(e2, 8) == 4 * e_efi.inode.extent_location()) & (le32(e2, 12) == e_efi.sector_count)
    ok = ok & (le32(e3, 8) == 4 * e_mac.inode.extent_location()) & (le32(e3, 12) == e_mac.sector_count)
    return h.post(ok)
