"""C08 CrossHair harnesses (no z3 import)."""
from vf import h, skel

h.fix_env()
h.install_struct_model()
from pycdlib import rockridge, headervd, pycdlibexception  # noqa: E402

NAMELEN = int(h.P.get('namelen', 100))
RRVER = h.P.get('rrver', '1.09')


def ce_alloc(o0: int, n0: int, o1: int, n1: int, o2: int, n2: int, k: int, length: int) -> bool:
    """
    pre: 0 <= k <= 3 and 1 <= length <= 2048
    pre: 0 <= o0 and 1 <= n0 and o0 + n0 <= o1 and 1 <= n1 and o1 + n1 <= o2 and 1 <= n2 and o2 + n2 <= 2048
    post: _
    """
    # C08.c / C04.c: the continuation-area allocator from an ARBITRARY valid block state (k <= 3 tracked entries, sorted, disjoint, inside the
    # 2048-byte block): add_rr_ce_entry returns a slot that is inside a block, disjoint from every existing entry of that block;
    # "no room" must produce a NEW block, never a negative or overlapping offset
    iso = skel.new_iso(skel.cfg_of(3, None, '1.09', False, False))
    pvd = iso.pvd
    blk = rockridge.RockRidgeContinuationBlock(30, 2048)
    ents = [(o0, n0), (o1, n1), (o2, n2)][:k]
    for (o, n) in ents:
        blk.track_entry(o, n)
    pvd.rr_ce_blocks = [blk]
    added, got, off = pvd.add_rr_ce_entry(length)
    ok = (off is not None)
    if not ok:
        return False
    ok = (off >= 0) & (off + length <= 2048)
    if added:
        ok = ok & (got is not blk) & (off == 0) & (len(pvd.rr_ce_blocks) == 2)
    else:
        ok = ok & (got is blk)
        for (o, n) in ents:
            ok = ok & ((off + length <= o) | (o + n <= off))
        # ... and a new block is only opened when the entry really does not fit: (checked on the added branch below)
    if added:
        # there was no gap of `length` bytes in the old block
        gaps = []
        prev = 0
        for (o, n) in ents:
            gaps.append(o - prev)
            prev = o + n
        gaps.append(2048 - prev)
        for g in gaps:
            ok = ok & (g < length)
    # removal gives the slot back: the same request succeeds at the same place again
    got.remove_entry(off, length)
    off2 = got.add_entry(length)
    ok = ok & (off2 == off)
    return h.post(ok)


# ------------------------------------------------------------------ reference SUSP reader (independent of pycdlib)

def susp_entries(data):
    """[(signature, version, payload)] of a system-use / continuation area; stops at padding"""
    out = []
    off = 0
    while off + 4 <= len(data):
        sig = bytes(data[off:off + 2])
        ln = data[off + 2]
        if sig == b'\x00\x00' or ln < 4:
            break
        out.append((sig, data[off + 3], data[off + 4:off + ln], ln))
        off += ln
    return out, off


def rr_new(curr_dr_len: int, mode: int, is_first: int, xa: int) -> bool:
    """
    pre: 34 <= curr_dr_len <= 100 and curr_dr_len % 2 == 0
    pre: 0 <= mode <= 0o177777 and 0 <= is_first <= 1 and 0 <= xa <= 1
    post: _
    """
    # C08.a: RockRidge.new for a name of NAMELEN bytes (concrete per obligation: sweep), everything else symbolic: the reference reader
    # applied to the directory-record entries followed by the continuation entries recovers exactly the name and mode; lengths add up;
    # the record stays <= 254 bytes; CE (if any) is the last entry of the record and announces the exact continuation length
    name = bytes((65 + (i % 26)) for i in range(NAMELEN))
    rr = rockridge.RockRidge()
    total = rr.new(bool(is_first), name, mode, b'', RRVER, False, False, False, 14 if xa else 0, curr_dr_len, {}, 1000000000.0)
    dre = rr.record_dr_entries()
    cee = rr.record_ce_entries()
    ok = (total == curr_dr_len + len(dre)) | (total == curr_dr_len + len(dre) + 1)
    ok = ok & (total <= 254 + 1)
    ents, used = susp_entries(dre)
    ok = ok & (used == len(dre))
    ce = rr.dr_entries.ce_record
    if ce is not None:
        ok = ok & (ents[-1][0] == b'CE') & (ce.len_cont_area == len(cee))
        e2, used2 = susp_entries(cee)
        ok = ok & (used2 == len(cee))
        ents = ents[:-1] + e2
    else:
        ok = ok & (len(cee) == 0)
    got = b''
    px_mode = None
    for sig, ver, payload, ln in ents:
        if sig == b'NM':
            got += bytes(payload[1:])
        if sig == b'PX':
            px_mode = payload[0] + 256 * payload[1] + 65536 * payload[2] + 16777216 * payload[3]
    ok = ok & (got == name) & (px_mode == mode)
    return h.post(ok)


def rr_links(l0: int) -> bool:
    """
    pre: 0 <= l0 <= 0x3ffff800
    post: _
    """
    # C08.e: Rock Ridge link counts after removals equal those of the history that never created the removed directory (final-state
    # equivalence on the digest, which contains every PX link count), for a parent whose PX entry lives in the directory record (short
    # name) or in the continuation area (long name: NAMELEN bytes)
    cfg = skel.cfg_of(3, None, RRVER, False, False)
    long_name = 'h' * NAMELEN
    fp = h.InFP()

    def build(with_sub):
        iso = skel.new_iso(cfg)
        iso.add_directory('/HOLDER', rr_name=long_name)
        iso.add_directory('/HOLDER/KEEP', rr_name='keep')
        iso.add_fp(fp, l0, '/HOLDER/KEEP/F.;1', rr_name='f')
        if with_sub:
            iso.add_directory('/HOLDER/SUB', rr_name='sub')
            iso.add_directory('/HOLDER/SUB/SUBSUB', rr_name='subsub')
            iso.rm_directory('/HOLDER/SUB/SUBSUB', rr_name='subsub')
            iso.rm_directory('/HOLDER/SUB', rr_name='sub')
        iso.force_consistency()
        return iso
    a, b = build(True), build(False)
    da, db = skel.digest(a), skel.digest(b)
    if len(da) != len(db):
        return False
    ok = True
    for x, y in zip(da, db):
        ok = ok & (x == y)
    return h.post(ok)
