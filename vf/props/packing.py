"""Directory packing lemmas (C01.d / C04.c / C17.b), construction (I): one real operation from an ARBITRARY directory
state satisfying the representation invariant

   Inv:  data_length = lbs * m  with  m >= NF(children)      (NF = next-fit sector count of the record lengths)
         extents_to_here / offset_to_here / index_in_parent of every child = the next-fit prefix values

k children with symbolic record lengths in [34, 255], logical block size symbolic in [1024, 2048]: with 5-6 records a
directory spans up to two sectors and "a record ends exactly at the sector end" is reachable.  Smaller block sizes are
excluded on purpose: next-fit packing is not monotone (measured: at block size 256, inserting one 190-byte record takes
a directory from 1 to 3 sectors while _add_child grows data_length by one block only); for that to happen the sector
count m must satisfy 255*m > lbs - 221, i.e. m >= 7 sectors at 2048 - far outside k, and no image pycdlib creates has
blocks below 2048.  Whether the anomaly is reachable at 2048 with hundreds of records is an OPEN question (a direct z3
search with up to 90 records did not finish in 10 minutes): outside the claim.
"""
from vf import h

h.fix_env()
from pycdlib import dr  # noqa: E402
from pycdlib import pycdlib as pm  # noqa: E402

K = int(h.P.get('k', 5))
POS = int(h.P.get('pos', 2))          # sorted position at which the new child lands / index of the child removed
LBS_LO = int(h.P.get('lbs_lo', 1024))


class StubRec(dr.DirectoryRecord):
    """a directory record whose on-disc bytes are modelled by their length only"""
    __slots__ = ()

    def record(self):
        return h.Span(self.dr_len)


def mkrec(name, dr_len, isdir=False):
    r = StubRec()
    r.initialized = True
    r.file_ident = name
    r.dr_len = dr_len
    r.isdir = isdir
    r.file_flags = 0
    r.data_length = 0
    r.rock_ridge = None
    r.xa_record = None
    r.ptr = None
    r.parent = None
    r.is_root = False
    return r


def names(k):
    return [b'\x00', b'\x01'] + [b'N%02d' % (2 * i + 2) for i in range(k - 2)]


def build(lens, lbs, slack):
    parent = mkrec(b'P', 40, True)
    parent.is_root = True
    for n, l in zip(names(len(lens)), lens):
        c = mkrec(n, l)
        c.parent = parent
        parent.children.append(c)
    n0, _off = parent._recalculate_extents_and_offsets(0, lbs)
    parent.data_length = (n0 + slack) * lbs
    parent.children[0].data_length = parent.data_length
    parent.children[1].data_length = parent.data_length
    # the LAST child is a sub-directory (it sorts after regular files): its own '.' and '..' records; '..' carries the parent's length
    sub = parent.children[-1]
    if len(parent.children) > 3:
        sub.isdir = True
        sd, sdd = mkrec(b'\x00', 34, True), mkrec(b'\x01', 34, True)
        sd.parent = sdd.parent = sub
        sdd.data_length = parent.data_length
        sub.children.extend([sd, sdd])
    return parent, n0


def nf_prefix(lens, lbs):
    """reference next-fit: list of (sector number 1.., end offset in sector) per record"""
    out = []
    n = 1
    off = 0
    for l in lens:
        if off + l > lbs:
            n += 1
            off = 0
        off += l
        out.append((n, off))
    return out


def inv_ok(parent, lbs):
    ref = nf_prefix([c.dr_len for c in parent.children], lbs)
    ok = True
    for i, c in enumerate(parent.children):
        ok = ok & (c.extents_to_here == ref[i][0]) & (c.offset_to_here == ref[i][1]) & (c.index_in_parent == i)
    need = ref[-1][0]
    ok = ok & (parent.data_length >= need * lbs) & (parent.data_length % lbs == 0)
    ok = ok & (parent.children[0].data_length == parent.data_length)
    for c in parent.children:
        if c.isdir and len(c.children) > 1:
            ok = ok & (c.children[1].data_length == parent.data_length)      # every sub-directory's '..' describes this directory
    return ok


def writer_ok(parent, lbs, extent):
    """the REAL _write_directory_records puts child i at (extent + extents_to_here - 1)*lbs + offset_to_here - dr_len,
    inside the sectors reserved for the directory"""
    class PTR:
        def record_little_endian(self):
            return h.Span(10)

        def record_big_endian(self):
            return h.Span(10)

    class VD:
        path_table_location_le = 1
        path_table_location_be = 3

        def root_directory_record(self):
            return parent
    parent.ptr = PTR()
    parent.new_extent_loc = extent
    parent.orig_extent_loc = None
    iso = pm.PyCdlib.__new__(pm.PyCdlib)
    iso.logical_block_size = lbs
    iso._track_writes = False
    out = h.OutFP()

    class Prog:
        def call(self, n):
            pass
    subs = [c for c in parent.children if c.isdir and len(c.children) > 1]
    for c in subs:
        c.isdir = False           # the writer lemma is about THIS directory's records: do not descend into the stub sub-directory
    try:
        iso._write_directory_records(VD(), out, Prog())
    finally:
        for c in subs:
            c.isdir = True
    writes = out.log[2:]          # after the two path table records
    if len(writes) != len(parent.children):
        return False
    ok = True
    for c, (lo, hi) in zip(parent.children, writes):
        want = (extent + c.extents_to_here - 1) * lbs + c.offset_to_here - c.dr_len
        ok = ok & (lo == want) & (hi == want + c.dr_len)
        ok = ok & (lo >= extent * lbs) & (hi <= extent * lbs + parent.data_length)
    return ok


def add_step(l0: int, l1: int, l2: int, l3: int, l4: int, newlen: int, lbs: int, slack: int) -> bool:
    """
    pre: 34 <= l0 <= 255 and 34 <= l1 <= 255 and 34 <= l2 <= 255 and 34 <= l3 <= 255 and 34 <= l4 <= 255
    pre: 34 <= newlen <= 255
    pre: LBS_LO <= lbs <= 2048
    pre: 0 <= slack <= 1
    post: _
    """
    lens = [l0, l1, l2, l3, l4][:K]
    parent, n0 = build(lens, lbs, slack)
    child = mkrec(b'N%02d' % (2 * POS - 3), newlen)       # sorts between existing names: lands at index POS
    child.parent = parent
    before = parent.data_length
    overflowed = parent._add_child(child, lbs, False, True)
    ok = inv_ok(parent, lbs) & (parent.children[POS] is child)
    ok = ok & (overflowed == (parent.data_length != before))
    ok = ok & writer_ok(parent, lbs, 20)
    return h.post(ok)


def remove_step(l0: int, l1: int, l2: int, l3: int, l4: int, l5: int, lbs: int, slack: int) -> bool:
    """
    pre: 34 <= l0 <= 255 and 34 <= l1 <= 255 and 34 <= l2 <= 255 and 34 <= l3 <= 255 and 34 <= l4 <= 255 and 34 <= l5 <= 255
    pre: LBS_LO <= lbs <= 2048
    pre: 0 <= slack <= 1
    post: _
    """
    lens = [l0, l1, l2, l3, l4, l5][:K + 1]
    parent, n0 = build(lens, lbs, slack)
    before = parent.data_length
    victim = parent.children[POS]
    under = parent.remove_child(victim, POS, lbs)
    gone = True
    for c in parent.children:
        if c is victim:
            gone = False
    ok = inv_ok(parent, lbs) & (under == (parent.data_length != before)) & gone
    ok = ok & writer_ok(parent, lbs, 20)
    return h.post(ok)


def track_vs_add(l0: int, l1: int, l2: int, l3: int, l4: int, lbs: int) -> bool:
    """
    pre: 34 <= l0 <= 255 and 34 <= l1 <= 255 and 34 <= l2 <= 255 and 34 <= l3 <= 255 and 34 <= l4 <= 255
    pre: LBS_LO <= lbs <= 2048
    post: _
    """
    # C17.b: the cached offsets after track_child (parse path, no overflow check) equal the next-fit reference, i.e. those after add_child
    lens = [l0, l1, l2, l3, l4][:K]
    parent = mkrec(b'P', 40, True)
    parent.is_root = True
    parent.data_length = 2048 * 8
    for n, l in zip(names(len(lens)), lens):
        c = mkrec(n, l)
        c.parent = parent
        parent.track_child(c, lbs)
    ref = nf_prefix([c.dr_len for c in parent.children], lbs)
    ok = True
    for i, c in enumerate(parent.children):
        ok = ok & (c.extents_to_here == ref[i][0]) & (c.offset_to_here == ref[i][1]) & (c.index_in_parent == i)
    return h.post(ok)


FUNCS = ['DirectoryRecord._add_child', 'DirectoryRecord.remove_child', 'DirectoryRecord._recalculate_extents_and_offsets',
         'DirectoryRecord.track_child', 'PyCdlib._write_directory_records']


def obligations_for(prefix, tier):
    quick = tier == 'quick'
    obs = []
    k = 5
    for pos in ((2, 4, 5) if quick else (2, 3, 4, 5)):
        obs.append({'name': '%s/add_child/k%d_pos%d' % (prefix, k, pos), 'module': __name__, 'func': 'add_step', 'params': {'k': k, 'pos': pos, 'lbs_lo': 1024},
                    'cond_timeout': 1200, 'path_timeout': 200,
                    'bounds': 'arbitrary directory of %d records + 1 inserted at index %d; every record length in [34,255]; block size in [1024,2048]; 0 or 1 spare sector' % (k, pos),
                    'functions': FUNCS, 'samples': [(34, 34, 60, 60, 60, 68, 256, 0)], 'stubs': ['records modelled by their length (Span)']})
    for pos in ((2, 5) if quick else (2, 3, 4, 5)):
        obs.append({'name': '%s/remove_child/k%d_pos%d' % (prefix, k + 1, pos), 'module': __name__, 'func': 'remove_step', 'params': {'k': k, 'pos': pos, 'lbs_lo': 1024},
                    'cond_timeout': 1200, 'path_timeout': 200,
                    'bounds': 'arbitrary directory of %d records, the one at index %d removed; lengths in [34,255]; block size in [1024,2048]; 0 or 1 spare sector' % (k + 1, pos),
                    'functions': FUNCS, 'samples': [(34, 34, 60, 60, 60, 68, 256, 0)], 'stubs': ['records modelled by their length (Span)']})
    obs.append({'name': '%s/track_child/k%d' % (prefix, k), 'module': __name__, 'func': 'track_vs_add', 'params': {'k': k, 'lbs_lo': 1024},
                'cond_timeout': 600, 'path_timeout': 100, 'bounds': '%d records tracked in order; lengths in [34,255]; block size in [1024,2048]' % k,
                'functions': FUNCS, 'samples': [(34, 34, 60, 60, 60, 256)]})
    return obs
