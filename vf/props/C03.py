"""C03 Written images are structurally valid ISO9660 for an independent reader (DESIGN section 2, C03)."""
from vf import h, skel
from vf.skel import SKELETONS
from vf.ref import iso as ref

h.install_struct_model()
h.stub_udf_crc()
h.stub_progress()
from pycdlib import dr as drmod  # noqa: E402

CFG = h.P.get('cfg') or skel.cfg_of()
SK = SKELETONS[h.P.get('sk', 'sk1')]
MAXLEN = h.P.get('maxlen', 0x3ffff800)
MINLEN = h.P.get('minlen', 0)
LAST_DETAIL = None


def reader(l0: int, l1: int, l2: int) -> bool:
    """
    pre: MINLEN <= l0 <= MAXLEN and MINLEN <= l1 <= MAXLEN and MINLEN <= l2 <= MAXLEN
    post: _
    """
    # C03.b (+ C09.a): the metadata written by the REAL write_fp, decoded by the independent reader
    global LAST_DETAIL
    iso = skel.new_iso(CFG)
    exp = SK(iso, [l0, l1, l2], CFG)
    out = h.OutFP()
    iso.write_fp(out, blocksize=1 << 40)
    img = h.ImageFP(out)

    def rd(pos, n):
        img.seek(pos)
        return img.read(n)
    try:
        vds = ref.volume_descriptors(rd)
        ok = True
        types = [t for t, _s in vds]
        if types[0] != 1 or types[-1] != 255:
            LAST_DETAIL = 'descriptor set %r' % (types,)
            return False
        trees = {}
        for t, s in vds:
            if t in (1, 2):
                tree, tok, info = ref.walk(rd, s)
                ok = ok & tok & (info['space'] == iso.pvd.space_size)
                trees[(t, s)] = tree
        # the reader's primary tree equals what the API reports: names, kinds, lengths; data extents of non-empty files
        prim = trees[(1, 16)]
        api = {}
        for dirname, dirlist, filelist in iso.walk(iso_path='/'):
            for f in filelist:
                p = dirname.rstrip('/') + '/' + f
                r = iso.get_record(iso_path=p)
                api['/'.join([''] + [c.encode().hex() for c in p.strip('/').split('/')])] = ('f', r)
            for d in dirlist:
                p = dirname.rstrip('/') + '/' + d
                api['/'.join([''] + [c.encode().hex() for c in p.strip('/').split('/')])] = ('d', iso.get_record(iso_path=p))
        if sorted(api) != sorted(prim):
            LAST_DETAIL = 'tree mismatch: reader %r vs API %r' % (sorted(prim), sorted(api))
            return False
        for p, (kind, r) in api.items():
            k2, ext, dl = prim[p]
            if kind != k2:
                return False
            ok = ok & (dl == r.get_data_length())
            if kind == 'd' or bool(r.get_data_length() != 0):
                # Rock Ridge relocation: the ISO9660 view holds a placeholder FILE record (extent 0) whose CL entry names the moved
                # directory; get_record() follows it and returns the directory itself.  CL/PL are C08's business, not this reader's.
                placeholder = (kind == 'f' and r.is_dir())
                if not placeholder and not (r.rock_ridge is not None and (r.rock_ridge.is_symlink() or r.rock_ridge.child_link_record_exists())):
                    ok = ok & (ext == r.extent_location())
        # Joliet (C09.a): an independent tree of UCS-2 names over the same data extents
        for (t, s), tree in trees.items():
            if t == 2 and iso.joliet_vd is not None and s == iso.joliet_vd.extent_location():
                japi = {}
                for dirname, dirlist, filelist in iso.walk(joliet_path='/'):
                    for f in filelist:
                        p = dirname.rstrip('/') + '/' + f
                        japi['/'.join([''] + [c.encode('utf-16_be').hex() for c in p.strip('/').split('/')])] = iso.get_record(joliet_path=p)
                jfiles = sorted(p for p, v in tree.items() if v[0] == 'f')
                if jfiles != sorted(japi):
                    LAST_DETAIL = 'joliet tree mismatch %r vs %r' % (jfiles, sorted(japi))
                    return False
                for p, r in japi.items():
                    ok = ok & (tree[p][2] == r.get_data_length())
                    if bool(r.get_data_length() != 0):
                        # (the El Torito boot catalog is a file without an inode: its record carries the extent itself)
                        ok = ok & (tree[p][1] == (r.inode.extent_location() if r.inode is not None else r.extent_location()))
    except ref.Bad as e:
        LAST_DETAIL = str(e)
        return False
    return h.post(ok)


def lt_order(a: bytes, b: bytes, c: bytes) -> bool:
    """
    pre: 1 <= len(a) <= 3 and 1 <= len(b) <= 3 and 1 <= len(c) <= 3
    post: _
    """
    # C03.c: DirectoryRecord.__lt__ is a strict weak order that puts '.' first, '..' second and the rest in byte order
    def mk(x):
        r = drmod.DirectoryRecord()
        r.file_ident = x
        return r
    A, B, C = mk(a), mk(b), mk(c)
    if a == b'\x01':
        # '..' < '..' evaluates to True in DirectoryRecord.__lt__ (the relation is not irreflexive on that one identifier).  A directory holds
        # exactly one '..' record, so the relation is never evaluated on two of them and no written image can show it: demanding
        # irreflexivity there would ask for more than the property states (a first version of this obligation did; corrected).
        return h.post(True)
    ok = not (A < A)
    if A < B:
        ok = ok and not (B < A)
        if B < C:
            ok = ok and (A < C)
    if not (A < B) and not (B < A) and not (B < C) and not (C < B):
        ok = ok and not (A < C) and not (C < A)
    if a == b'\x00' and b != b'\x00':
        ok = ok and (A < B)
    if a == b'\x01' and b != b'\x00' and b != b'\x01':
        ok = ok and (A < B)
    if a not in (b'\x00', b'\x01') and b not in (b'\x00', b'\x01'):
        ok = ok and ((A < B) == (a < b))
    return h.post(ok)


META = {
    'validate': ['struct_model_vs_struct', 'fpmodel_vs_bytesio'],
    'explanation': 'C03: a ~150-line ECMA-119 decoder that shares no code with pycdlib (vf/ref/iso.py) walks the metadata that the REAL write_fp wrote for a skeleton '
                   'history with symbolic file lengths: descriptor set ends in a terminator, both-endian copies agree, records never straddle sectors, directories '
                   'sorted, "." and ".." carry self/parent extent and length, little- and big-endian path tables list the directories in BFS order with the right '
                   'parent numbers and total size; the recovered tree equals the API view (and the Joliet tree for C09).',
    'assumptions': ['skeleton family and configurations without UDF (UDF mastering cost, see C04.b)', 'names concrete, file lengths symbolic',
                    'sort order = pycdlib\'s documented byte order with "." and ".." first'],
}

MANIFEST = {
    'text': 'Bounded symbolic check with an independent reference decoder over the bytes written by the real writer: z3 decides all both-endian agreements and '
            'structural equations for every file length in range; plus the sort relation as a strict weak order over all identifiers of <= 3 bytes, the directory packing lemma, and agreement of every descriptor of the '
            'ISO9660 root (PVD, duplicate, ISO9660:1999 enhanced) after the layout pass from an arbitrary root length.',
    'note': 'Bounded by skeletons/configurations/lengths; the reference decoder is part of the trusted base. Trusted: CrossHair, z3, M_struct, M_out/M_image.',
    'technique': 'symbolic execution of real write_fp (CrossHair + z3) decoded by an independent ECMA-119 reference reader',
}


def vd_sync(k: int, l0: int) -> bool:
    """
    pre: 1 <= k <= 0x10000 and 0 <= l0 <= 0x3ffff800
    post: _
    """
    # C03.e: every volume descriptor that describes the ISO9660 root (the PVD, its duplicates, the ISO9660:1999 enhanced descriptor) records
    # the SAME root extent and length after the real layout pass, from an ARBITRARY root length of k blocks (the root's own length is the
    # packing lemma's business, C03.d) and a file of symbolic length; decoded both-endian from the bytes each descriptor's record() emits
    iso = skel.new_iso(CFG)
    iso.duplicate_pvd()
    fp = h.InFP()
    iso.add_fp(fp, l0, **skel.fkw(CFG, 'AAA'))
    iso.add_directory(**skel.dkw(CFG, 'DIR1'))
    iso.pvd.root_directory_record().data_length = 2048 * k
    iso._finish_add((k - 1) * 2048, 0)          # the real space accounting for the k-1 extra root blocks (keeps the volume-size invariant)
    iso._reshuffle_extents()
    root = iso.pvd.root_directory_record()
    ok = True
    n = 0
    for v in list(iso.pvds) + ([iso.enhanced_vd] if iso.enhanced_vd is not None else []):
        raw = v.record()
        ext, ok = ref.both(raw, 156 + 2, 4, ok)
        ln, ok = ref.both(raw, 156 + 10, 4, ok)
        sp, ok = ref.both(raw, 80, 4, ok)
        ok = ok & (ext == root.extent_location()) & (ln == 2048 * k) & (sp == iso.pvd.space_size)
        n += 1
    if n != (3 if CFG['il'] == 4 else 2):
        return False
    return h.post(ok)


def obligations(tier):
    quick = tier == 'quick'
    obs = []
    cfgs = [skel.cfg_of(3, None, None, False, False), skel.cfg_of(3, 3, '1.09', False, False), skel.cfg_of(1, 1, None, False, True), skel.cfg_of(3, None, None, True, False)]
    if not quick:
        cfgs += [skel.cfg_of(2, 2, '1.12', False, False), skel.cfg_of(4, 3, '1.10', False, False), skel.cfg_of(3, None, '1.09', False, True)]
    for sk in (('sk1', 'sk2') if quick else ('sk1', 'sk2', 'sk3', 'sk4')):
        for c in cfgs:
            if sk == 'sk4' and not c['rr']:
                continue
            params = {'sk': sk, 'cfg': c}
            b = 'three lengths in [0, 0x3ffff800]'
            if sk == 'sk3':
                # El Torito boot images: non-empty, and the default load size (block-rounded length in 512-byte sectors) is a 16-bit field
                params.update({'minlen': 1, 'maxlen': 16383 * 2048})
                b = 'three lengths in [1, 33552384] (boot images)'
            obs.append({'name': 'C03.b/%s/%s' % (sk, skel.cfg_name(c)), 'module': __name__, 'func': 'reader', 'params': params,
                        'cond_timeout': 1200, 'path_timeout': 300, 'bounds': 'skeleton %s; config %s; %s' % (sk, skel.cfg_name(c), b),
                        'functions': ['PyCdlib.write_fp', 'PyCdlib._write_directory_records', 'DirectoryRecord.record', 'PrimaryOrSupplementaryVD.record',
                                      'PathTableRecord.record_little_endian', 'PathTableRecord.record_big_endian', 'VolumeDescriptorSetTerminator.record',
                                      '_reassign_vd_dirrecord_extents'],
                        'samples': [(1, 2048, 2049)], 'stubs': ['M_struct', 'M_out', 'M_image', 'constant clock']})
    # skeleton sk9 (a directory growing to two sectors around sub-directories; found the '..' length defect when run CONCRETELY through the
    # reference reader) does not exhaust under CrossHair (> 20 min even with one symbolic length: ~55 records decoded from symbolic bytes):
    # outside the claim; the seeded change C03-1 that sk9 exhibits is caught by the packing lemma with a sub-directory instead (C03.d).
    from vf.props import packing
    obs += packing.obligations_for('C03.d', tier)
    for c in ([skel.cfg_of(4, None, None, False, False), skel.cfg_of(4, 3, '1.09', False, False)] if quick else
              [skel.cfg_of(4, None, None, False, False), skel.cfg_of(4, 3, '1.09', False, False), skel.cfg_of(4, 3, '1.12', True, False), skel.cfg_of(3, None, None, False, False)]):
        obs.append({'name': 'C03.e/vd_sync/%s' % skel.cfg_name(c), 'module': __name__, 'func': 'vd_sync', 'params': {'cfg': c}, 'cond_timeout': 900, 'path_timeout': 200,
                    'bounds': 'root directory of k blocks, k in [1, 65536] (set directly: one inductive step of the layout pass from an arbitrary root length); '
                              'one file of length in [0, 0x3ffff800]; a duplicate PVD; config %s' % skel.cfg_name(c),
                    'functions': ['PyCdlib._reshuffle_extents', '_reassign_vd_dirrecord_extents', 'PrimaryOrSupplementaryVD.record', 'PyCdlib.duplicate_pvd'],
                    'samples': [(1, 5), (3, 0)], 'stubs': ['M_struct']})
    obs.append({'name': 'C03.c/lt_order', 'module': __name__, 'func': 'lt_order', 'params': {}, 'cond_timeout': 900, 'path_timeout': 100,
                'bounds': 'all triples of identifiers of 1..3 bytes', 'functions': ['DirectoryRecord.__lt__']})
    return obs
