"""C10.c: UDF file-identifier packing across sector boundaries (CrossHair harness, no z3 import)."""
import os
import sys
from vf import h, skel

h.fix_env()
from pycdlib import udf as udfmod  # noqa: E402

NFILL = int(h.P.get('nfill', 44))


def fid_packing(n0: int, n1: int, n2: int) -> bool:
    """
    pre: 1 <= n0 <= 254 and 1 <= n1 <= 254 and 1 <= n2 <= 254
    post: _
    """
    # a UDF root directory with NFILL concrete 4-character names (40 + NFILL*44 bytes of identifiers) and three more identifiers whose
    # NAME LENGTHS are symbolic: the identifier area crosses the 2048-byte boundary at a symbolic place (exact fit included).
    # After the real accounting (add_file_ident_desc) and the real extent assignment (_reshuffle_extents):
    #   every identifier's recorded block == first block + (byte offset of the identifier // 2048)   (ECMA-167 tag location)
    #   and the global allocation is still sound and exact.
    cfg = skel.cfg_of(3, None, None, True, False)
    iso = skel.new_iso(cfg)
    fp = h.InFP()
    for i in range(NFILL):
        iso.add_fp(fp, 0, iso_path='/F%03d.;1' % i, udf_path='/f%03d' % i)
    root = iso.udf_root
    extra = 0
    for n in (n0, n1, n2):
        d = udfmod.UDFFileIdentifierDescriptor()
        d.new(False, False, b'x', root)
        d.fi = h.Span(n)                       # a name of symbolic length (content irrelevant to packing)
        extra += root.add_file_ident_desc(d, 2048) * 2048
    iso._finish_add(0, extra)
    iso.force_consistency()
    first = root.fi_descs[0].extent_location()
    ok = True
    off = 0
    for d in root.fi_descs:
        ok = ok & (d.extent_location() == first + off // 2048)
        ok = ok & (d.desc_tag.tag_location == d.extent_location() - iso.udf_main_descs.partitions[0].part_start_location)
        off = off + udfmod.UDFFileIdentifierDescriptor.length(len(d.fi))
    ok = ok & (root.info_len == off) & (root.log_block_recorded == h.cdiv(off, 2048))
    ok = ok & skel.spans_ok(iso, skel.collect_spans(iso))
    # ... and back: remove the three symbolic-length identifiers again (the area shrinks back across the boundary), then two of the
    # concrete ones through the public API; after every step the recorded information length equals the sum of the identifiers left and
    # the global allocation is sound and exact
    for d in list(root.fi_descs[-3:]):
        freed = root.remove_file_ident_desc_by_name(d.fi, 2048) * 2048
        iso._finish_remove(freed, True)
    iso.rm_file(iso_path='/F000.;1')
    iso.rm_file(iso_path='/F001.;1')
    iso.force_consistency()
    off = 0
    for d in root.fi_descs:
        ok = ok & (d.extent_location() == first + off // 2048)
        off = off + udfmod.UDFFileIdentifierDescriptor.length(len(d.fi))
    ok = ok & (root.info_len == off) & (root.log_block_recorded == h.cdiv(off, 2048))
    ok = ok & skel.spans_ok(iso, skel.collect_spans(iso))
    return h.post(ok)


def udf_reader(l0: int, l1: int, l2: int) -> bool:
    """
    pre: RMIN <= l0 <= RMAX and RMIN <= l1 <= RMAX and RMIN <= l2 <= RMAX
    post: _
    """
    # C10.b: the independent ECMA-167 reader over the bytes written by the REAL write_fp (symbolic file lengths)
    global LAST_DETAIL
    from vf.ref import udf as refudf
    from vf.ref.iso import Bad
    from vf.skel import SKELETONS
    cfg = h.P.get('cfg') or skel.cfg_of(3, None, None, True, False)
    if h.P.get('fixed'):
        l1, l2 = h.P['fixed']
    iso = skel.new_iso(cfg)
    built = SKELETONS[h.P.get('sk', 'sk1')](iso, [l0, l1, l2], cfg)
    out = h.OutFP()
    iso.write_fp(out, blocksize=1 << 40)
    img = h.ImageFP(out)

    def rd(pos, n):
        img.seek(pos)
        return img.read(n)

    def rd_sym(pos, n):
        # a descriptor written at a symbolic position: the only candidates are the writer's own symbolic-position metadata
        # writes; the bytes are those of the candidate whose start EQUALS pos (an equation of the result, no path fork)
        cands = [(p, d) for (p, d) in img.sym_chunks if len(d) == n] or [(p, d) for (p, d) in img.sym_chunks if len(d) >= n]
        if not cands:
            # the writer's position was concrete on this path although the volume size is a symbolic term: an ordinary read
            return rd(pos, n), True
        if len(cands) != 1:
            raise Bad('%d candidate descriptors at a symbolic position' % len(cands))
        return cands[0][1][:n], cands[0][0] == pos
    try:
        tree, ok, info = refudf.walk(rd, iso.pvd.space_size, not h.SYM, rd_sym, h.concrete)
    except Bad as e:
        LAST_DETAIL = str(e)
        if os.environ.get('VF_DBG'):
            print('DBG bad', e, file=sys.stderr)
        return False
    if os.environ.get('VF_DBG'):
        print('DBG reader-ok', bool(ok), file=sys.stderr)
    api = {}
    for dirname, dirlist, filelist in iso.walk(udf_path='/'):
        for f in filelist:
            p = dirname.rstrip('/') + '/' + f
            api['/'.join([''] + [c.encode('latin-1').hex() for c in p.strip('/').split('/')])] = ('f', iso.get_record(udf_path=p))
        for d in dirlist:
            p = dirname.rstrip('/') + '/' + d
            api['/'.join([''] + [c.encode('latin-1').hex() for c in p.strip('/').split('/')])] = ('d', iso.get_record(udf_path=p))
    if sorted(api) != sorted(tree):
        LAST_DETAIL = 'tree mismatch: reader %r vs API %r' % (sorted(tree), sorted(api))
        return False
    for p, (kind, rec) in api.items():
        t = tree[p]
        if t[0] != kind:
            return False
        if kind == 'f' and len(t) > 2:
            ok = ok & (t[2] == rec.get_data_length())
            if bool(rec.get_data_length() != 0) and rec.inode is not None and t[4] == 5:
                ok = ok & (info['part_start'] + t[3] == rec.inode.extent_location())
    if h.P.get('linkcount'):
        # C10.b/udf_linkcount: ONLY the File Link Count of non-directory File Entries (kept apart: see known_findings.txt)
        return h.post(info['file_link_ok'])
    # symbolic links: the recorded path components decode to the target the user passed
    want = {'/'.join([''] + [x.encode('latin-1').hex() for x in p.strip('/').split('/')]): t for p, t in (built.get('udf_symlinks') or {}).items()}
    if sorted(want) != sorted(info['symlinks']):
        LAST_DETAIL = 'symlink set mismatch: reader %r vs built %r' % (sorted(info['symlinks']), sorted(want))
        return False
    for p, t in want.items():
        if decode_symlink(info['symlinks'][p]) != [ord(ch) for ch in t]:
            LAST_DETAIL = 'symlink %r does not decode to %r' % (p, t)
            return False
    # the partition covers everything it describes and ends where the volume's last anchor begins
    for b in info['blocks']:
        ok = ok & (b < info['part_len'])
    ok = ok & (info['part_start'] + info['part_len'] == iso.pvd.space_size - 1)
    ok = ok & (info['num_files'] == len([1 for v in api.values() if v[0] == 'f'])) & (info['num_dirs'] == info['ndirs'])
    return h.post(ok)


def decode_symlink(b):
    """independent ECMA-167 4/14.16.1 path-component decoder: returns the list of code points of the Unix-like target"""
    out = []
    i = 0
    first = True
    n = len(b)
    while i < n:
        if i + 4 > n:
            return None
        ctype, lci = b[i], b[i + 1]
        if b[i + 2] != 0 or b[i + 3] != 0:
            return None
        if i + 4 + lci > n:
            return None
        ident = b[i + 4:i + 4 + lci]
        if not first:
            out.append(47)
        if ctype == 2:
            if not first or lci != 0:
                return None
        elif ctype == 4:
            if lci != 0:
                return None
            out.append(46)
        elif ctype == 3:
            if lci != 0:
                return None
            out.extend([46, 46])
        elif ctype == 5:
            if lci < 2:
                return None
            if ident[0] == 8:
                for k in range(1, lci):
                    out.append(ident[k])
            elif ident[0] == 16:
                if (lci - 1) % 2:
                    return None
                k = 1
                while k < lci:
                    u = ident[k] * 256 + ident[k + 1]
                    k += 2
                    if 0xd800 <= u < 0xdc00:
                        if k >= lci:
                            return None
                        u2 = ident[k] * 256 + ident[k + 1]
                        k += 2
                        if not 0xdc00 <= u2 < 0xe000:
                            return None
                        u = 0x10000 + (u - 0xd800) * 1024 + (u2 - 0xdc00)
                    elif 0xdc00 <= u < 0xe000:
                        return None
                    out.append(u)
            else:
                return None
        else:
            return None
        first = False
        i += 4 + lci
    return out


def symlink_rt(t: str) -> bool:
    """
    pre: 1 <= len(t) <= MAXT
    post: _
    """
    # C10.d: every normalised Unix-like target (no empty component except a leading one, no lone surrogate) is recovered from the bytes
    # the REAL symlink_to_bytes emits, by the independent path-component decoder
    cps = [ord(ch) for ch in t]
    for cp in cps:
        if 0xd800 <= cp < 0xe000 or cp == 0:
            return True
    if t == '/' or t.endswith('/') or '//' in t:
        return True
    s2b = getattr(skel, '_orig_s2b', udfmod.symlink_to_bytes)
    data = s2b(t)
    got = decode_symlink(data)
    if got is None:
        return False
    if len(got) != len(cps):
        return False
    for a, b in zip(got, cps):
        if a != b:
            return False
    return h.post(True)


MAXT = int(h.P.get('maxt', 4))
RMIN = int(h.P.get('minlen', 0))
RMAX = int(h.P.get('maxlen', 0x3ffff800))
LAST_DETAIL = None
h.install_codecs()
h.install_struct_model()
h.stub_udf_crc()
h.stub_progress()
