"""C10.c: UDF file-identifier packing across sector boundaries (CrossHair harness, no z3 import)."""
from vf import h, skel

h.fix_env()
from pycdlib import udf as udfmod  # noqa: E402

NFILL = int(h.P.get('nfill', 44))


def fid_packing(n0: int, n1: int, n2: int) -> bool:
    """
    pre: 1 <= n0 <= 254 and 1 <= n1 <= 254 and 1 <= n2 <= 254
    post: _
    """
    # a UDF root directory with NFILL concrete 4-character names (40 + NFILL*44 bytes of identifiers) and three more identifiers whose
    # NAME LENGTHS are symbolic: the identifier area crosses the 2048-byte boundary at a symbolic place (exact fit included).
    # After the real accounting (add_file_ident_desc) and the real extent assignment (_reshuffle_extents):
    #   every identifier's recorded block == first block + (byte offset of the identifier // 2048)   (ECMA-167 tag location)
    #   and the global allocation is still sound and exact.
    cfg = skel.cfg_of(3, None, None, True, False)
    iso = skel.new_iso(cfg)
    fp = h.InFP()
    for i in range(NFILL):
        iso.add_fp(fp, 0, iso_path='/F%03d.;1' % i, udf_path='/f%03d' % i)
    root = iso.udf_root
    extra = 0
    for n in (n0, n1, n2):
        d = udfmod.UDFFileIdentifierDescriptor()
        d.new(False, False, b'x', root)
        d.fi = h.Span(n)                       # a name of symbolic length (content irrelevant to packing)
        extra += root.add_file_ident_desc(d, 2048) * 2048
    iso._finish_add(0, extra)
    iso.force_consistency()
    first = root.fi_descs[0].extent_location()
    ok = True
    off = 0
    for d in root.fi_descs:
        ok = ok & (d.extent_location() == first + off // 2048)
        ok = ok & (d.desc_tag.tag_location == d.extent_location() - iso.udf_main_descs.partitions[0].part_start_location)
        off = off + udfmod.UDFFileIdentifierDescriptor.length(len(d.fi))
    ok = ok & (root.info_len == off) & (root.log_block_recorded == h.cdiv(off, 2048))
    ok = ok & skel.spans_ok(iso, skel.collect_spans(iso))
    # ... and back: remove the three symbolic-length identifiers again (the area shrinks back across the boundary), then two of the
    # concrete ones through the public API; after every step the recorded information length equals the sum of the identifiers left and
    # the global allocation is sound and exact
    for d in list(root.fi_descs[-3:]):
        freed = root.remove_file_ident_desc_by_name(d.fi, 2048) * 2048
        iso._finish_remove(freed, True)
    iso.rm_file(iso_path='/F000.;1')
    iso.rm_file(iso_path='/F001.;1')
    iso.force_consistency()
    off = 0
    for d in root.fi_descs:
        ok = ok & (d.extent_location() == first + off // 2048)
        off = off + udfmod.UDFFileIdentifierDescriptor.length(len(d.fi))
    ok = ok & (root.info_len == off)
    ok = ok & skel.spans_ok(iso, skel.collect_spans(iso))
    return h.post(ok)
