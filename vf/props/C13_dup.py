"""C13.c harness (kept free of z3 imports so that counterexamples replay under the repository interpreter)."""
# ------------------------------------------------------------------ C13.c duplicate names must be refused at the edit

def dup_refused(l0: int, l1: int) -> bool:
    """
    pre: 0 <= l0 <= 0x3ffff800 and 0 <= l1 <= 0x3ffff800
    post: _
    """
    from vf import h, skel
    from vf.props import C14
    from pycdlib import pycdlibexception
    c = h.P.get('cfg') or skel.cfg_of()
    name = h.P['recipe']
    fp = h.InFP()
    iso = C14._base(c, [l0, l1], fp)
    call, _app = C14.recipes(c)[name]
    try:
        call(iso, fp)
    except pycdlibexception.PyCdlibInvalidInput:
        ok = True
    else:
        ok = False
    # ... and a name may be re-used once the old entry is gone
    iso2 = C14._base(c, [l0, l1], fp)
    iso2.rm_file(iso_path='/AAA.;1')
    iso2.add_fp(fp, l1, **skel.fkw(c, 'AAA'))
    iso2.force_consistency()
    return h.post(ok)


DUP_RECIPES = ['add_fp_dup_iso', 'add_fp_dup_joliet', 'add_fp_dup_udf', 'add_dir_dup', 'add_dir_dup_joliet', 'add_dir_dup_udf',
               'add_link_dup_new', 'add_link_dup_joliet', 'add_link_dup_udf', 'add_symlink_dup', 'add_symlink_dup_joliet', 'add_symlink_dup_udf',
               'el_bootcat_dup', 'el_bootcat_dup_joliet', 'el_bootcat_dup_udf']


