"""C01 Mastering fidelity (DESIGN section 2, C01)."""
from vf import h, skel, view
from vf.skel import SKELETONS
import pycdlib

h.install_struct_model()
h.stub_udf_crc()
h.stub_progress()

CFG = h.P.get('cfg') or skel.cfg_of()
SKN = h.P.get('sk', 'sk1')
SK = SKELETONS[SKN]
MAXLEN = h.P.get('maxlen', 0x3ffff800)
MINLEN = h.P.get('minlen', 0)
LAST_DETAIL = None


def expected_names(iso, exp, cfg):
    """the tree the history implies, per namespace, from the skeleton's own bookkeeping (iso paths -> other namespaces by the
    naming convention of skel.fkw/dkw)"""
    return exp


def api_view(l0: int, l1: int, l2: int) -> bool:
    """
    pre: MINLEN <= l0 <= MAXLEN and MINLEN <= l1 <= MAXLEN and MINLEN <= l2 <= MAXLEN
    post: _
    """
    # C01.a: the API view after the history lists exactly the expected ISO names with the given lengths;
    # every other namespace lists the same number of files with the same multiset of lengths.
    iso = skel.new_iso(CFG)
    exp = SK(iso, [l0, l1, l2], CFG)
    iso.force_consistency()
    v = view.view(iso)
    isofiles = [(e[1], e[3]) for e in v if e[0] == 'iso_path' and e[2] in ('file', 'symlink')]
    want = sorted(exp['files'].items())
    got_names = [p for p, _ in isofiles]
    extra = [p for p in got_names if p not in exp['files'] and not p.endswith('BOOT.CAT;1') and not p.endswith('SYM.;1')]
    missing = [p for p in exp['files'] if p not in got_names]
    if extra or missing:
        return False
    ok = True
    for p, ln in isofiles:
        if p in exp['files']:
            ok = ok & (ln == exp['files'][p])
    for d in exp['dirs']:
        if ('iso_path', d, 'dir', None, None) not in v:
            return False
    return h.post(ok)


def reopen(l0: int, l1: int, l2: int) -> bool:
    """
    pre: MINLEN <= l0 <= MAXLEN and MINLEN <= l1 <= MAXLEN and MINLEN <= l2 <= MAXLEN
    post: _
    """
    # C01.b: real write_fp -> real open_fp on the written metadata: the re-opened object shows the same tree, lengths and
    # data extents in every namespace; each re-opened file's data is read from extent*2048 with the given length
    fixed = h.P.get('fixed')
    if fixed:
        l1, l2 = fixed
    iso = skel.new_iso(CFG)
    SK(iso, [l0, l1, l2], CFG)
    out = h.OutFP()
    iso.write_fp(out, blocksize=1 << 40)
    va = view.view(iso)
    img = h.ImageFP(out)
    iso2 = pycdlib.PyCdlib()
    iso2.open_fp(img)
    vb = view.view(iso2)
    ok = view.same_view(va, vb)
    ok = ok & (iso2.pvd.space_size == iso.pvd.space_size)
    for e in vb:
        if e[2] == 'file' and e[4] is not None and bool(e[3] != 0):
            ino = e[4]
            ok = ok & (ino.orig_extent_loc == ino.extent_location()) & (ino.data_length == e[3])
    return h.post(ok)


META = {
    'validate': ['struct_model_vs_struct', 'fpmodel_vs_bytesio'],
    'explanation': 'C01: skeleton histories of real API calls with symbolic file lengths; C01.a the API view equals the history\'s expectation; '
                   'C01.b the real writer\'s output (metadata chunks at concrete positions, file data as length-only spans) is re-opened by the real '
                   'parser and shows the same tree, lengths and data extents in every namespace.',
    'assumptions': ['names concrete; histories = the stated skeleton family; file CONTENT is not materialised: byte-for-byte data fidelity is decomposed '
                    'into (i) the data path copies [src, src+len) to [extent*2048, +len) (C16/C04.b write log) and (ii) the re-opened record points at '
                    'extent*2048 with that length (here)',
                    're-open obligations bound file lengths to <= 3 sectors because the parser keys dictionaries by on-disc extents (hashing a symbolic '
                    'integer makes CrossHair enumerate its values)',
                    'UDF tag CRC/checksum replaced by constants on both sides (decided separately in C10.a); progress reporting stubbed'],
}

MANIFEST = {
    'text': 'Bounded symbolic model checking of mastering fidelity on skeleton histories: z3 decides for all file lengths in range that the API view '
            'matches the history and that the real parser, run on what the real writer wrote, reconstructs the same tree, lengths and extents in '
            'every namespace.',
    'note': 'Bounded by skeleton family x configurations x length interval (re-open: lengths <= 6144). File contents are not materialised (see assumptions). '
            'Trusted: CrossHair, z3, M_struct, M_out/M_image (validated each run).',
    'technique': 'symbolic execution of real write_fp and open_fp (CrossHair + z3) over symbolic file lengths with struct/file models',
}


def obligations(tier):
    quick = tier == 'quick'
    obs = []
    cfgs = skel.quick_cfgs() if quick else skel.pairwise_cfgs()
    for sk in (['sk1', 'sk2', 'sk3'] if quick else ['sk1', 'sk2', 'sk3', 'sk4']):
        for c in cfgs:
            if sk == 'sk4' and not c['rr']:
                continue
            nm = skel.cfg_name(c)
            obs.append({'name': 'C01.a/%s/%s' % (sk, nm), 'module': __name__, 'func': 'api_view',
                        'params': {'sk': sk, 'cfg': c, 'minlen': 1 if sk == 'sk3' else 0}, 'cond_timeout': 600, 'path_timeout': 100,
                        'bounds': 'skeleton %s; config %s; three lengths in [0, 0x3ffff800]' % (sk, nm),
                        'functions': ['PyCdlib.walk', 'PyCdlib.list_children', 'PyCdlib.get_record', 'PyCdlib.add_fp', 'PyCdlib.rm_file',
                                      'PyCdlib.add_directory', 'PyCdlib.add_hard_link', 'PyCdlib.rm_hard_link', 'PyCdlib.add_eltorito'],
                        'samples': [(1, 2048, 2049)], 'stubs': ['M_rand', 'constant clock', 'Span file data']})
    for sk in (['sk1'] if quick else ['sk1', 'sk2']):
        for c in cfgs:
            if quick and c['joliet'] and not c['rr']:
                continue     # quick: Joliet re-open is exercised together with Rock Ridge
            if quick and c['udf'] and (c['joliet'] or c['rr']):
                continue     # quick: one UDF re-open configuration
            nm = skel.cfg_name(c)
            params = {'sk': sk, 'cfg': c, 'maxlen': 6144}
            bnd = 'three lengths in [0, 6144]'
            if c['udf']:
                # UDF re-open costs ~20 s per path (the parser keys dictionaries by symbolic extents): one symbolic length
                params['fixed'] = [2048, 2049]
                bnd = 'l0 in [0, 6144], l1 = 2048, l2 = 2049'
            obs.append({'name': 'C01.b/%s/%s' % (sk, nm), 'module': __name__, 'func': 'reopen',
                        'params': params, 'cond_timeout': 1500, 'path_timeout': 300,
                        'bounds': 'skeleton %s; config %s; %s; one copy-loop iteration per file' % (sk, nm, bnd),
                        'functions': ['PyCdlib.write_fp', 'PyCdlib.open_fp', 'PyCdlib._open_fp', 'PyCdlib._parse_volume_descriptors',
                                      'PyCdlib._walk_directories', 'PyCdlib._parse_path_table', 'DirectoryRecord.parse', 'DirectoryRecord.record',
                                      'PrimaryOrSupplementaryVD.parse', 'PrimaryOrSupplementaryVD.record', 'Inode.parse', 'RockRidge.parse'],
                        'samples': [(1, 2048, 2049)], 'stubs': ['M_struct', 'M_out', 'M_image', 'M_rand', 'constant clock']})
    from vf.props import packing
    obs += packing.obligations_for('C01.d', tier)
    for nf in ((44,) if tier == 'quick' else (44, 43, 90)):
        obs.append({'name': 'C01.d/udf_fid_packing/nfill%d' % nf, 'engine': 'chx', 'module': 'vf.props.C10_h', 'func': 'fid_packing', 'params': {'nfill': nf},
                    'cond_timeout': 900, 'path_timeout': 200,
                    'bounds': 'UDF root directory with %d concrete names + 3 identifiers with symbolic name lengths in [1,254], added then removed' % nf,
                    'functions': ['UDFFileEntry.add_file_ident_desc', 'UDFFileEntry.remove_file_ident_desc_by_name', 'UDFFileIdentifierDescriptor.length',
                                  'PyCdlib._udf_assign_extents', 'PyCdlib._finish_add', 'PyCdlib._finish_remove', 'PyCdlib.rm_file'],
                    'samples': [(30, 4, 4), (31, 5, 9)], 'stubs': ['names modelled by their length (Span)']})
    return obs
