"""C12 Hybrid MBR/GPT/APM (DESIGN section 2, C12)."""
from vf import h

META = {
    'explanation': 'C12.b: GPT CRC-32 kernel decided on bit-vectors (E2): table step vs bitwise reflected polynomial for all 2^40 (state, byte) pairs.',
    'assumptions': ['induction from the one-step lemma to messages of any length is an argument, not a solver result'],
}

MANIFEST = {
    'text': 'Solver-decided CRC-32 kernel on the real function, bounded symbolic execution of the real MBR/GPT encoding for all geometries in range, and of '
            'the real extent assignment on hybrid skeleton histories with symbolic boot-file lengths.',
    'note': 'Bounded: one CRC step for all states/bytes, whole messages of 1 byte; geometry/size ranges per obligation; skeleton family.',
    'technique': 'bit-vector symbolic execution of real crc32 (z3 + second solver) and CrossHair on IsoHybrid code',
}


def obligations(tier):
    K = 'vf.kernels'
    obs = [
        {'name': 'C12.b/crc32_step', 'engine': 'py', 'module': K, 'func': 'crc32_step', 'cond_timeout': 900,
         'bounds': 'all 2^32 states x 2^8 bytes; one loop iteration', 'functions': ['isohybrid.crc32', 'isohybrid.crc32_table']},
        {'name': 'C12.b/crc32_msg1', 'engine': 'py', 'module': K, 'func': 'crc32_msg', 'params': {'n': 1}, 'cond_timeout': 900,
         'bounds': 'all messages of 1 byte', 'functions': ['isohybrid.crc32']},
    ]
    return obs
