"""C12 Hybrid MBR/GPT/APM (DESIGN section 2, C12)."""
from vf import h

META = {
    'explanation': 'C12.b: GPT CRC-32 kernel decided on bit-vectors (E2): table step vs bitwise reflected polynomial for all 2^40 (state, byte) pairs.',
    'assumptions': ['induction from the one-step lemma to messages of any length is an argument, not a solver result'],
}

MANIFEST = {
    'text': 'Solver-decided CRC-32 kernel on the real function, bounded symbolic execution of the real MBR/GPT encoding for all geometries in range, and of '
            'the real extent assignment on hybrid skeleton histories with symbolic boot-file lengths: recorded MBR entries, GPT partitions, primary/backup '
            'mirroring (entry-by-entry), header cross-references; Apple partition map entries in a separate obligation (recorded finding).',
    'note': 'Bounded: one CRC step for all states/bytes, whole messages of 1 byte; geometry/size ranges per obligation; skeleton family. GPT header and '
            'entry-array CRC VALUES are validated per the UEFI rule with zlib on the declared concrete samples and replays only.',
    'technique': 'bit-vector symbolic execution of real crc32 (z3 + second solver) and CrossHair on IsoHybrid code',
}


def obligations(tier):
    K = 'vf.kernels'
    obs = [
        {'name': 'C12.b/crc32_step', 'engine': 'py', 'module': K, 'func': 'crc32_step', 'cond_timeout': 900,
         'bounds': 'all 2^32 states x 2^8 bytes; one loop iteration', 'functions': ['isohybrid.crc32', 'isohybrid.crc32_table']},
        {'name': 'C12.b/crc32_msg1', 'engine': 'py', 'module': K, 'func': 'crc32_msg', 'params': {'n': 1}, 'cond_timeout': 900,
         'bounds': 'all messages of 1 byte', 'functions': ['isohybrid.crc32']},
    ]
    H = 'vf.props.C12_h'
    # image sizes start at 18 sectors (system area + PVD + terminator): smaller 'images' with a partition offset beyond their end are not images
    geos = [(64, 32, 18, 2000, 8), (64, 32, 523264, 526336, 8), (255, 63, 18, 31000, 60), (1, 1, 18, 22, 2), (256, 63, 18, 32000, 8)]
    if tier != 'quick':
        geos += [(1, 63, 18, 3000, 20), (2, 8, 18, 200, 4), (255, 63, 31000, 100000, 8), (32, 63, 18, 5000, 8)]
    for (hd, sc, n0, n1, po) in geos:
        obs.append({'name': 'C12.a/mbr/h%d_s%d_n%d-%d' % (hd, sc, n0, n1), 'engine': 'chx', 'module': H, 'func': 'mbr',
                    'params': {'heads': hd, 'sectors': sc, 'nmin': n0, 'nmax': n1, 'pomax': po}, 'cond_timeout': 1200, 'path_timeout': 200,
                    'bounds': 'geometry %d heads x %d sectors; image size n*2048 with n in [%d,%d]; part_offset <= %d; part_entry 1..4; any type / mbr id / boot extent' % (hd, sc, n0, n1, po),
                    'functions': ['IsoHybrid.new', 'IsoHybrid._calc_cc', 'IsoHybrid.record', 'IsoHybrid.update_rba'],
                    'samples': [(n0, 0, 1, 0x17, 5, 20)], 'stubs': ['M_struct', 'record_padding: only its length (_calc_cc) is used']})
    from vf import skel
    for c in ([skel.cfg_of(), skel.cfg_of(3, 3, '1.09', True, False)] if tier == 'quick' else skel.quick_cfgs()):
        obs.append({'name': 'C12.c/hybrid_layout/%s' % skel.cfg_name(c), 'engine': 'chx', 'module': H, 'func': 'hybrid_layout', 'params': {'cfg': c},
                    'cond_timeout': 900, 'path_timeout': 200,
                    'bounds': 'BIOS + two EFI sections (EFI, Mac) with three symbolic boot file lengths in [1,100000]; add_isohybrid(mac=True); config %s' % skel.cfg_name(c),
                    'functions': ['PyCdlib.add_eltorito', 'PyCdlib.add_isohybrid', 'PyCdlib._reshuffle_extents', 'IsoHybrid.update_rba', 'IsoHybrid.update_efi', 'IsoHybrid.update_mac'],
                    'samples': [(1, 1, 2049)]})
    c0 = skel.cfg_of()
    obs.append({'name': 'C12.c/apm/%s' % skel.cfg_name(c0), 'engine': 'chx', 'module': H, 'func': 'hybrid_layout', 'params': {'cfg': c0, 'apm': True},
                'cond_timeout': 900, 'path_timeout': 200,
                'bounds': 'as C12.c/hybrid_layout; ONLY the equation: Apple partition map entries 2 and 3 delimit the EFI / Mac El Torito images (in 2048-byte '
                          'map blocks or 512-byte sectors)',
                'functions': ['PyCdlib.add_isohybrid', 'IsoHybrid.update_efi', 'IsoHybrid.update_mac', 'APMPartHeader.new'], 'samples': []})
    return obs
