"""C11 El Torito boot structures (DESIGN section 2, C11)."""
from vf import h

META = {
    'explanation': 'C11.a: validation-entry checksum and boot-info-table checksum kernels decided on bit-vectors (E2).  C11.b: the boot record, validation/initial/section entries and catalog names decoded from the bytes of the real write_fp with symbolic boot-file lengths, with hidden boot files and rm_eltorito (CrossHair).',
    'assumptions': ['checksum loop body depends on the position only through its parity; messages longer than the stated n are outside the E2 bound',
                    'boot-info checksum: struct.unpack_from("<L") given its bit-vector meaning; one 2048-byte sector of symbolic words'],
}

MANIFEST = {
    'text': 'Solver-decided checksum kernels on the real functions (bit-vector symbolic execution) and bounded symbolic execution of the real '
            'El Torito layout code on skeleton histories with symbolic boot-file lengths.',
    'note': 'Bounded: checksum messages of 8 (quick) / 16 (thorough) bytes; one sector for the boot-info checksum; skeleton family for layout.',
    'technique': 'bit-vector symbolic execution of real checksum kernels (z3 + second solver) and CrossHair on El Torito layout code',
}


def obligations(tier):
    K = 'vf.kernels'
    obs = [
        {'name': 'C11.a/validation_checksum_8', 'engine': 'py', 'module': K, 'func': 'eltorito_checksum', 'params': {'n': 8}, 'cond_timeout': 600,
         'bounds': 'all messages of 8 bytes', 'functions': ['EltoritoValidationEntry._checksum'], 'stubs': ['int() shadowed by identity in eltorito namespace']},
    ]
    for dl in ((68, 2048, 2052, 2112, 2116, 4096, 4100, 6184) if tier == 'quick' else (64, 68, 72, 2044, 2048, 2052, 2108, 2112, 2116, 4092, 4096, 4100, 4160, 6144, 6184, 8192)):
        obs.append({'name': 'C11.a/boot_info_csum_len%d' % dl, 'engine': 'py', 'module': K, 'func': 'boot_info_csum_len', 'params': {'data_len': dl}, 'cond_timeout': 900,
                    'bounds': 'boot file of exactly %d bytes; the 32-bit words at block starts/ends, around offset 64 and at the tail symbolic, the rest zero' % dl,
                    'functions': ['PyCdlib._calculate_eltorito_boot_info_table_csum'], 'stubs': ['struct.unpack_from("<L") as word select', 'block-reading file model']})
    from vf import skel
    cfgs = [skel.cfg_of(3, None, None, False, False), skel.cfg_of(3, 3, '1.09', False, False), skel.cfg_of(3, None, None, True, False),
            skel.cfg_of(3, 3, '1.09', True, False)]
    if tier != 'quick':
        cfgs = skel.pairwise_cfgs()
    for c in cfgs:
        for v in ('plain', 'hidden', 'removed', 'hidden_removed'):
            obs.append({'name': 'C11.b/elt_layout_%s/%s' % (v, skel.cfg_name(c)), 'engine': 'chx', 'module': 'vf.props.C11_h', 'func': 'elt_layout',
                        'params': {'cfg': c, 'variant': v}, 'cond_timeout': 1500, 'path_timeout': 300,
                        'bounds': 'boot file and EFI image lengths in [1, 33552384], a third file in [0, 0x3ffff800]; variant %s; config %s; '
                                  'one BIOS initial entry (load size 4) + one EFI section entry (default load size); floppy/HD emulation and more '
                                  'sections are outside this obligation' % (v, skel.cfg_name(c)),
                        'functions': ['PyCdlib.add_eltorito', 'PyCdlib.rm_eltorito', 'PyCdlib.rm_hard_link', 'PyCdlib._reshuffle_extents', 'PyCdlib.write_fp',
                                      'EltoritoBootCatalog.record', 'EltoritoEntry.record', 'EltoritoValidationEntry.record', 'BootRecord.record'],
                        'samples': [(3000, 5, 7000), (1, 2048, 0)],
                        'stubs': ['M_struct', 'M_out', 'M_image', 'file data modelled as length-only Span objects', 'UDF CRC/checksum constant under the solver']})
    if tier != 'quick':
        obs.append({'name': 'C11.a/validation_checksum_16', 'engine': 'py', 'module': K, 'func': 'eltorito_checksum', 'params': {'n': 16}, 'cond_timeout': 3000,
                    'bounds': 'all messages of 16 bytes', 'functions': ['EltoritoValidationEntry._checksum']})
        obs.append({'name': 'C11.a/boot_info_csum_1sector', 'engine': 'py', 'module': K, 'func': 'boot_info_csum', 'params': {'nsec': 1}, 'cond_timeout': 3000,
                    'bounds': 'one 2048-byte sector, 512 symbolic 32-bit words', 'functions': ['PyCdlib._calculate_eltorito_boot_info_table_csum'],
                    'stubs': ['struct.unpack_from("<L") as bit-vector word select', 'file object returning symbolic blocks']})
    return obs
