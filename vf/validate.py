"""Differential validation of the environment models against the real implementations (run at the start of a check)."""
import io
import random


def fpmodel_vs_bytesio(seed):
    from vf import h
    rnd = random.Random(seed)
    cases = 0
    for _ in range(300):
        size = rnd.randrange(0, 200)
        real = io.BytesIO(bytes(size))
        mod = h.InFP('x', size)
        for _ in range(12):
            op = rnd.randrange(3)
            if op == 0:
                off = rnd.randrange(0, 260)
                wh = 0
                if rnd.random() < 0.3:
                    wh, off = 2, -rnd.randrange(0, size + 1)
                a, b = real.seek(off, wh), mod.seek(off, wh)
                if a != b:
                    return {'ok': False, 'cases': cases, 'detail': 'seek %r' % ((off, wh, a, b),)}
            elif op == 1:
                n = rnd.randrange(0, 100)
                a, b = real.read(n), mod.read(n)
                if len(a) != len(b) or real.tell() != mod.tell():
                    return {'ok': False, 'cases': cases, 'detail': 'read %r' % ((n, len(a), len(b)),)}
            else:
                if real.tell() != mod.tell():
                    return {'ok': False, 'cases': cases, 'detail': 'tell'}
            cases += 1
    # OutFP vs BytesIO
    for _ in range(200):
        real = io.BytesIO()
        mod = h.OutFP()
        for _ in range(10):
            if rnd.random() < 0.4:
                off = rnd.randrange(0, 300)
                real.seek(off); mod.seek(off)
            else:
                n = rnd.randrange(0, 50)
                real.write(bytes(n)); mod.write(bytes(n))
            if real.tell() != mod.tell() or len(real.getvalue()) != mod.end:
                return {'ok': False, 'cases': cases, 'detail': 'outfp'}
            cases += 1
    return {'ok': True, 'cases': cases}
