"""Differential validation of the environment models against the real implementations (run at the start of a check)."""
import io
import random


def fpmodel_vs_bytesio(seed):
    from vf import h
    rnd = random.Random(seed)
    cases = 0
    for _ in range(300):
        size = rnd.randrange(0, 200)
        real = io.BytesIO(bytes(size))
        mod = h.InFP('x', size)
        for _ in range(12):
            op = rnd.randrange(3)
            if op == 0:
                off = rnd.randrange(0, 260)
                wh = 0
                if rnd.random() < 0.3:
                    wh, off = 2, -rnd.randrange(0, size + 1)
                a, b = real.seek(off, wh), mod.seek(off, wh)
                if a != b:
                    return {'ok': False, 'cases': cases, 'detail': 'seek %r' % ((off, wh, a, b),)}
            elif op == 1:
                n = rnd.randrange(0, 100)
                a, b = real.read(n), mod.read(n)
                if len(a) != len(b) or real.tell() != mod.tell():
                    return {'ok': False, 'cases': cases, 'detail': 'read %r' % ((n, len(a), len(b)),)}
            else:
                if real.tell() != mod.tell():
                    return {'ok': False, 'cases': cases, 'detail': 'tell'}
            cases += 1
    # OutFP vs BytesIO
    for _ in range(200):
        real = io.BytesIO()
        mod = h.OutFP()
        for _ in range(10):
            if rnd.random() < 0.4:
                off = rnd.randrange(0, 300)
                real.seek(off); mod.seek(off)
            else:
                n = rnd.randrange(0, 50)
                real.write(bytes(n)); mod.write(bytes(n))
            if real.tell() != mod.tell() or len(real.getvalue()) != mod.end:
                return {'ok': False, 'cases': cases, 'detail': 'outfp'}
            cases += 1
    return {'ok': True, 'cases': cases}


def _repo_formats():
    """every struct format string literal (or FMT class attribute) found in /repo/pycdlib by AST scan"""
    import ast, glob, os, struct
    fmts = set()
    repo = os.environ.get('VF_REPO', '/repo')
    for fn in glob.glob(os.path.join(repo, 'pycdlib', '*.py')) + glob.glob(os.path.join(repo, 'tools', 'pycdlib-*')):
        try:
            tree = ast.parse(open(fn).read())
        except SyntaxError:
            continue
        for node in ast.walk(tree):
            if isinstance(node, ast.Constant) and isinstance(node.value, str):
                s = node.value
                if 0 < len(s) < 80 and s[0] in '<>=!@' or (0 < len(s) < 80 and all(ch in '0123456789BbHhLlIiQqsx' for ch in s) and any(ch.isalpha() for ch in s)):
                    try:
                        struct.calcsize(s)
                        fmts.add(s)
                    except struct.error:
                        pass
    return sorted(fmts)


def struct_model_vs_struct(seed):
    """differential run of M_struct against CPython's struct on every format found in /repo"""
    import random, struct, re
    from vf.models import smodel
    rnd = random.Random(seed)
    cases = 0
    fmts = _repo_formats()
    supported = set('BbHhLlIiQqsx0123456789<>=!@')
    skipped = []
    for f in fmts:
        if not set(f) <= supported:
            skipped.append(f)
            continue
        if f[0] not in '<>=!' and struct.calcsize(f) != struct.calcsize('=' + f):
            skipped.append(f + ' (native-size format; only in the Windows ioctl path of utils)')
            continue
        if smodel.calcsize(f) != struct.calcsize(f):
            return {'ok': False, 'cases': cases, 'detail': 'calcsize %r' % f}
        order, items = smodel._parse(f)
        for _ in range(6):
            vals = []
            for c, sz in items:
                if c == 'x':
                    continue
                if c == 's':
                    n = rnd.choice([0, sz, max(0, sz - 1), sz + 2])
                    vals.append(bytes(rnd.randrange(256) for _ in range(n)))
                else:
                    lo, hi = (-(1 << (8 * sz - 1)), (1 << (8 * sz - 1)) - 1) if c.islower() else (0, (1 << (8 * sz)) - 1)
                    vals.append(rnd.choice([lo, hi, 0, 1, rnd.randrange(lo, hi + 1), rnd.randrange(lo, hi + 1)]))
            a = struct.pack(f, *vals)
            b = smodel.pack(f, *vals)
            if a != b:
                return {'ok': False, 'cases': cases, 'detail': 'pack %r %r' % (f, vals)}
            buf = bytes(rnd.randrange(256) for _ in range(len(a)))
            if struct.unpack(f, buf) != smodel.unpack(f, buf):
                return {'ok': False, 'cases': cases, 'detail': 'unpack %r' % f}
            pad = bytes(3) + buf + bytes(2)
            if struct.unpack_from(f, pad, 3) != smodel.unpack_from(f, pad, 3):
                return {'ok': False, 'cases': cases, 'detail': 'unpack_from %r' % f}
            cases += 3
        # range / short-buffer errors
        for c, sz in items:
            if c in 'sx':
                continue
        try:
            smodel.unpack(f, bytes(max(0, struct.calcsize(f) - 1)))
            if struct.calcsize(f) > 0:
                return {'ok': False, 'cases': cases, 'detail': 'short buffer accepted %r' % f}
        except smodel.error:
            pass
    for c, sz in (('B', 1), ('H', 2), ('L', 4), ('b', 1), ('h', 2), ('Q', 8)):
        for v in (-1, 1 << (8 * sz), -(1 << (8 * sz - 1)) - 1):
            r1 = r2 = None
            try:
                struct.pack('<' + c, v); r1 = True
            except struct.error:
                r1 = False
            try:
                smodel.pack('<' + c, v); r2 = True
            except smodel.error:
                r2 = False
            if r1 != r2:
                return {'ok': False, 'cases': cases, 'detail': 'range %s %d' % (c, v)}
            cases += 1
    return {'ok': True, 'cases': cases, 'formats': len(fmts), 'skipped_formats': skipped}


def time_model_vs_time(seed):
    """M_time.gmtime against the real time.gmtime on boundary and random instants; localtime against the real one under TZ settings"""
    import os, random, time
    os.environ['VF_MODE_SAVE'] = os.environ.get('VF_MODE', '')
    from vf.models import mtime
    rnd = random.Random(seed)
    cases = 0
    pts = [0, 1, 86399, 86400, 68169599, 68169600, 951782399, 951782400, 951868800, 4102444799, 2 ** 31 - 1, 2 ** 31]
    for y in range(1971, 2100, 7):
        pts.append(int(time.mktime((y, 1, 1, 0, 0, 0, 0, 0, 0))) if False else 0)
    pts += [rnd.randrange(0, 4102444800) for _ in range(6000)]
    for t in pts:
        a, b = time.gmtime(t), mtime._civil_concrete(t)
        if (a.tm_year, a.tm_mon, a.tm_mday, a.tm_hour, a.tm_min, a.tm_sec, a.tm_yday) != (b.tm_year, b.tm_mon, b.tm_mday, b.tm_hour, b.tm_min, b.tm_sec, b.tm_yday):
            return {'ok': False, 'cases': cases, 'detail': 'gmtime(%d)' % t}
        cases += 1
    old = os.environ.get('TZ')
    try:
        for tz in ('UTC', 'Europe/Berlin', 'America/New_York', 'Australia/Sydney', 'Australia/Lord_Howe', 'Pacific/Chatham', 'Asia/Kathmandu',
                   'Asia/Kolkata', 'Pacific/Kiritimati', 'Etc/GMT+12', 'America/St_Johns', 'Asia/Tehran'):
            os.environ['TZ'] = tz
            time.tzset()
            for _ in range(400):
                t = rnd.randrange(0, 4102444800)
                lt = time.localtime(t)
                off = lt.tm_gmtoff
                if off % 900 != 0:
                    continue      # zones with offsets that are not multiples of 15 minutes are outside the property
                mtime.set_offset(off // 900)
                b = mtime.localtime(t)
                if (lt.tm_year, lt.tm_mon, lt.tm_mday, lt.tm_hour, lt.tm_min, lt.tm_sec, lt.tm_yday) != (b.tm_year, b.tm_mon, b.tm_mday, b.tm_hour, b.tm_min, b.tm_sec, b.tm_yday):
                    return {'ok': False, 'cases': cases, 'detail': 'localtime(%d) TZ=%s' % (t, tz)}
                cases += 1
    finally:
        if old is None:
            os.environ.pop('TZ', None)
        else:
            os.environ['TZ'] = old
        time.tzset()
        mtime.set_offset(0)
    return {'ok': True, 'cases': cases}
