"""Harness helpers shared by every obligation module.

Modes (env VF_MODE):
  sym       -- running under CrossHair (python3-vt): environment models installed
  concrete  -- replay / model validation with the real struct, time, io (any python)
Other env: VF_PARAMS (json dict: per-obligation parameters), VF_TWIN=1 (reachability twin).
"""
import json
import os
import sys

MODE = os.environ.get('VF_MODE', 'concrete')
SYM = MODE == 'sym'
TWIN = os.environ.get('VF_TWIN') == '1'
P = json.loads(os.environ.get('VF_PARAMS', '{}') or '{}')

if '/repo' not in sys.path:
    sys.path.insert(0, os.environ.get('VF_REPO', '/repo'))

import time as _time
import random as _random
import uuid as _uuid

REAL_TIME = _time.time
FIXED_NOW = 1000000000.0


def fix_env():
    """M_rand + constant clock: values are opaque to every property that uses this."""
    if MODE == 'plan':
        return
    _time.time = lambda: FIXED_NOW
    _random.getrandbits = lambda n: 12345 & ((1 << n) - 1)
    _uuid.uuid4 = lambda: _uuid.UUID(int=7)


def patch_crosshair_bitops():
    """CrossHair realises a symbolic int on every bitwise operator (z3 Int has none).  The identities x|0 = x^0 = x, x&0 = 0,
    x<<0 = x>>0 = x are sound for Python ints and keep e.g. UDFShortAD.record (`length | (extent_type << 30)` with type 0)
    symbolic instead of enumerating the length value by value."""
    if not SYM:
        return
    from crosshair.libimpl import builtinslib as bl
    from crosshair.tracers import NoTracing
    cls = bl.SymbolicIntable
    if getattr(cls, '_vf_patched', False):
        return

    def wrap(name, neutral, absorbing=None):
        orig = getattr(cls, name)

        def f(self, other):
            with NoTracing():
                conc = type(other) is int
            if conc:
                if other == neutral:
                    return self
                if absorbing is not None and other == absorbing:
                    return absorbing
            return orig(self, other)
        setattr(cls, name, f)
    for nm in ('__or__', '__ror__', '__xor__', '__rxor__'):
        wrap(nm, 0)

    # x >> n = x // 2^n,  x << n = x * 2^n,  x & m = ((x // 2^a) % 2^k) * 2^a for a mask m of k contiguous ones starting at bit a:
    # exact for Python's unbounded two's-complement ints (floor division / non-negative modulus), expressed in linear integer arithmetic
    orig_and, orig_rand = cls.__and__, cls.__rand__
    orig_rs, orig_ls = cls.__rshift__, cls.__lshift__

    def _mask_run(m):
        if m <= 0:
            return None
        a = (m & -m).bit_length() - 1
        k = (m >> a).bit_length()
        return (a, k) if (m >> a) == (1 << k) - 1 else None

    def _and(self, other, orig=orig_and):
        with NoTracing():
            conc = type(other) is int
        if conc:
            if other == 0:
                return 0
            if other == -1:
                return self
            run = _mask_run(other)
            if run is not None:
                a_, k_ = run
                return ((self // (1 << a_)) % (1 << k_)) * (1 << a_)
        return orig(self, other)
    cls.__and__ = _and
    cls.__rand__ = lambda self, other: _and(self, other, orig_rand)

    def _rs(self, n):
        with NoTracing():
            conc = type(n) is int
        if conc and n >= 0:
            return self if n == 0 else self // (1 << n)
        return orig_rs(self, n)

    def _ls(self, n):
        with NoTracing():
            conc = type(n) is int
        if conc and n >= 0:
            return self if n == 0 else self * (1 << n)
        return orig_ls(self, n)
    cls.__rshift__ = _rs
    cls.__lshift__ = _ls
    cls._vf_patched = True


def install_codecs():
    """CrossHair (0.0.110) has symbolic codecs for ascii / latin-1 / utf-8 only, and its strict-mode encoder REALISES the input string
    before raising UnicodeEncodeError.  Two additions (sym mode only):
      * a symbolic utf-16-be encoder (BMP code unit, surrogate pair above 0xffff, lone surrogates are an encoding error);
      * strict-mode encode errors are raised without realising the input (pycdlib only catches the exception, never inspects it)."""
    if not SYM:
        return
    import codecs
    from crosshair.libimpl.builtinslib import SymbolicBytes
    from crosshair.libimpl.encodings import _encutil
    from crosshair.libimpl.encodings._encutil import MidChunkError, StemEncoder
    if getattr(StemEncoder, '_vf_patched', False):
        return

    class Utf16BeStemEncoder(StemEncoder):
        encoding_name = 'utf-16-be'

        @classmethod
        def _encode_chunk(cls, string, start):
            out = []
            for idx in range(start, len(string)):
                cp = ord(string[idx])
                if cp < 0xd800:
                    out.append(cp // 256)
                    out.append(cp % 256)
                elif cp < 0xe000:
                    return (SymbolicBytes(out), idx, MidChunkError('surrogates not allowed'))
                elif cp < 0x10000:
                    out.append(cp // 256)
                    out.append(cp % 256)
                else:
                    v = cp - 0x10000
                    hi = 0xd800 + v // 1024
                    lo = 0xdc00 + v % 1024
                    out.extend([hi // 256, hi % 256, lo // 256, lo % 256])
            return (SymbolicBytes(out), len(string), None)

        @classmethod
        def _decode_chunk(cls, byts, start):
            raise NotImplementedError

    entry = Utf16BeStemEncoder.getregentry()

    def search(name):
        if name.replace('-', '_').lower() in ('crosshair_utf_16_be', 'crosshair_utf_16be', 'crosshair_utf16be', 'crosshair_utf16_be'):
            return entry
        return None
    codecs.register(search)
    orig_encode = StemEncoder.encode.__func__

    def encode(cls, input, errors='strict'):
        if errors != 'strict':
            return orig_encode(cls, input, errors)
        if not (isinstance(input, str) and isinstance(errors, str)):
            raise TypeError
        parts = []
        idx = 0
        n = len(input)
        while idx < n:
            out, idx, err = cls._encode_chunk(input, idx)
            parts.append(out)
            if err is not None:
                raise UnicodeEncodeError(cls.encoding_name, '?', 0, 1, err.reason())
        return b''.join(parts), idx
    StemEncoder.encode = classmethod(encode)
    StemEncoder._vf_patched = True


def pycdlib_modules():
    import pycdlib  # noqa
    from pycdlib import dates, dr, eltorito, isohybrid, utils, rockridge, headervd, path_table_record, udf, inode
    from pycdlib import pycdlib as pm
    return (dates, dr, eltorito, isohybrid, utils, rockridge, headervd, path_table_record, udf, pm, inode)


def install_struct_model():
    """Replace the `struct` attribute of every imported pycdlib module by M_struct (sym mode only)."""
    if not SYM:
        return False
    patch_crosshair_bitops()
    from vf.models import smodel
    for m in pycdlib_modules():
        if hasattr(m, 'struct'):
            m.struct = smodel
    return True


def stub_udf_crc():
    """UDF descriptor CRCs are computed over bytes that contain symbolic fields; the table-driven CRC realises them.
    The 8-bit tag checksum (_compute_csum) likewise.  For properties to which the CRC/checksum VALUE is opaque (allocation, layout, re-open) the real udf.crc_ccitt is replaced by
    a constant on both the record and the parse side.  The CRC itself is decided separately by engine E2 (C10.a)."""
    if not SYM:
        return False
    from pycdlib import udf
    udf.crc_ccitt = lambda data: 0
    udf._compute_csum = lambda data: 0
    return True


def stub_progress():
    """PyCdlib._Progress.call computes min(done+length, total) after every write: with symbolic lengths that is a solver
    query per write and no property depends on progress reporting -> empty body (logging/formatting class of stub)."""
    if not SYM:
        return False
    from pycdlib import pycdlib as pm
    pm.PyCdlib._Progress.call = lambda self, length: None
    return True


def post(ok):
    """final value of a harness: the reachability twin returns False once the end is reached"""
    if TWIN:
        return False
    return ok


def concrete(x):
    """True iff x is a plain int (not a CrossHair symbolic)"""
    if not SYM:
        return True
    from crosshair.tracers import NoTracing
    with NoTracing():
        return type(x) is int


def smax_if(cond, a, b):
    """b if not cond else max(a, b), as a single z3 if-then-else when anything is symbolic (no path fork)"""
    if not SYM:
        return max(a, b) if cond else b
    from crosshair.tracers import NoTracing
    from crosshair.libimpl.builtinslib import SymbolicInt
    import z3
    with NoTracing():
        def tz(x):
            return x.var if hasattr(x, 'var') else (z3.BoolVal(x) if isinstance(x, bool) else z3.IntVal(x))
        if type(cond) is bool and type(a) is int and type(b) is int:
            return max(a, b) if cond else b
        if not (hasattr(a, 'var') or type(a) is int) or not (hasattr(b, 'var') or type(b) is int) or not (hasattr(cond, 'var') or type(cond) is bool):
            sym_ok = False
        else:
            sym_ok = True
        if sym_ok:
            za, zb, zc = tz(a), tz(b), tz(cond)
            return SymbolicInt(z3.If(z3.And(zc, za > zb), za, zb))
    return max(a, b) if cond else b


def cdiv(a, b):
    return -(-a // b)


# ---------------------------------------------------------------- file models (M_fp / M_out / M_image)

class Span:
    """file data of unknown content: only a length (optionally a source position)"""
    def __init__(self, n, start=None, src=None):
        self.n = n
        self.start = start
        self.src = src

    def __len__(self):
        return self.n


class InFP:
    """data source of unknown content; reads return Span objects that remember where they came from"""
    mode = 'rb'

    def __init__(self, tag='in', size=None):
        self.pos = 0
        self.tag = tag
        self.size = size
        self.reads = []

    def seek(self, off, whence=0):
        if whence == 0:
            self.pos = off
        elif whence == 1:
            self.pos += off
        else:
            self.pos = self.size + off
        return self.pos

    def tell(self):
        return self.pos

    def read(self, n=-1):
        start = self.pos
        if self.size is not None:
            if n is None or n < 0:
                n = self.size - start
            end = min(self.size, start + n)
            if end < start:
                end = start
            n = end - start
        self.pos = start + n
        self.reads.append((start, n))
        return Span(n, start, self.tag)


class OutFP:
    """output file: position arithmetic, write log, metadata chunks kept when position is concrete"""
    def __init__(self):
        self.pos = 0
        self.end = 0
        self.log = []      # (start, end, payload-kind)
        self.chunks = []   # (start, bytes) for real bytes at concrete positions
        self.spans = []    # (start, Span)

    def seek(self, off, whence=0):
        if whence == 0:
            self.pos = off
        elif whence == 1:
            self.pos += off
        else:
            self.pos = self.end + off
        return self.pos

    def tell(self):
        return self.pos

    def write(self, data):
        n = len(data)
        if isinstance(data, Span):
            if not concrete(n) or n > 0:
                self.log.append((self.pos, self.pos + n))
                self.spans.append((self.pos, data))
        elif n > 0:
            self.log.append((self.pos, self.pos + n))
            if concrete(self.pos):
                self.chunks.append((self.pos, data))
            else:
                self.spans.append((self.pos, data))
        self.pos += n
        if concrete(n) and n == 0:
            return n
        # end = max(end, pos) when n > 0 -- built as ONE if-then-else term, not a path fork
        self.end = smax_if(n > 0, self.pos, self.end)
        return n

    def truncate(self, size=None):
        if size is None:
            size = self.pos
        self.end = size
        return size


class ImageFP:
    """read-only image backed by the chunks of an OutFP: concrete-position reads return real bytes
    (zero-filled where nothing was written), symbolic-position reads return a Span"""
    mode = 'rb'

    def __init__(self, out):
        self.chunks = sorted(out.chunks, key=lambda c: c[0])
        # metadata written at SYMBOLIC positions (e.g. the UDF anchor in the last sector of a symbolic-size image)
        self.sym_chunks = [(p, d) for (p, d) in out.spans if not isinstance(d, Span) and len(d) >= 16]      # descriptors, not the 1-byte end padding
        self.pos = 0
        self.n = out.end
        self.span_reads = []

    def seek(self, off, whence=0):
        if whence == 0:
            self.pos = off
        elif whence == 1:
            self.pos = self.pos + off
        else:
            self.pos = self.n + off
        return self.pos

    def tell(self):
        return self.pos

    def read(self, n=-1):
        start = self.pos
        end = start + n
        if not (concrete(start) and concrete(end)) and concrete(n) and n <= 4096:
            # metadata-sized probe at a symbolic position (UDF anchors at N-1 / N-257, continuation areas ...): enumerate the
            # (few) possible sector positions -- CrossHair forks over the values; sound because every value is explored
            from crosshair.core import realize
            start = realize(start)
            end = start + n
        if not (concrete(start) and concrete(end)):
            self.pos = end
            for (p, d) in self.sym_chunks:
                if start == p and concrete(n):       # decided by the solver; infeasible alternatives are pruned
                    return d[:n] if n <= len(d) else d + b'\x00' * (n - len(d))
            self.span_reads.append((start, n))
            if concrete(n) and n <= 4096:
                # a metadata-sized probe into a region holding file data (e.g. the UDF anchor probe at N-256): file CONTENT is
                # opaque to every layout property; it is concretised to zero bytes here (recorded assumption)
                return b'\x00' * n
            return Span(n, start, 'image')
        for (p, d) in self.sym_chunks:
            if start == p:
                self.pos = end
                return d[:n] if n <= len(d) else d + b'\x00' * (n - len(d))
        parts = []
        cur = start
        for (p, d) in self.chunks:
            q = p + len(d)
            if q <= cur or p >= end:
                continue
            if p > cur:
                parts.append(b'\x00' * (p - cur))
                cur = p
            lo = cur - p
            hi = min(q, end) - p
            parts.append(d[lo:hi])
            cur = p + hi
        if cur < end:
            parts.append(b'\x00' * (end - cur))
        self.pos = end
        return b''.join(parts)


def disjoint(spans):
    """all (lo,hi) half-open intervals pairwise disjoint.  Concrete intervals are checked natively (sort + sweep); only pairs that involve a
    symbolic end point become solver terms, combined with & and | (one formula, no path fork)."""
    conc = []
    sym = []
    for s in spans:
        if concrete(s[0]) and concrete(s[1]):
            conc.append((s[0], s[1]))
        else:
            sym.append(s)
    conc.sort()
    for i in range(len(conc) - 1):
        if conc[i][1] > conc[i + 1][0] and conc[i][0] != conc[i][1] and conc[i + 1][0] != conc[i + 1][1]:
            return False
    ok = True
    for i in range(len(sym)):
        a = sym[i]
        for j in range(i + 1, len(sym)):
            b = sym[j]
            ok = ok & ((a[1] <= b[0]) | (b[1] <= a[0]))
        for b in conc:
            ok = ok & ((a[1] <= b[0]) | (b[1] <= a[0]))
    return ok
