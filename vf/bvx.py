"""Engine E2: run the REAL integer kernels on z3 bit-vector proxies (64-bit) with path forking.

* every +, *, << carries a no-overflow side condition, so the bit-vector reading coincides with Python's
  unbounded integers; a violated side condition makes the obligation inconclusive (never a finding);
* a branch on a symbolic condition is explored by re-execution with a decision prefix (DFS), infeasible
  prefixes are pruned by the solver;
* static tables are wrapped so that a symbolic index becomes an if-then-else chain over the REAL table values;
* the final query of each path (path condition AND NOT property) is decided by z3; up to `xcheck` of them are
  also written as SMT-LIB2 and re-decided by /usr/bin/z3 (4.8.12) and cvc5 under a 60 s cap.
"""
import os
import shutil
import subprocess
import tempfile
import time

import z3

W = 64
CTX = None
FORKLOG = {} if os.environ.get('VF_FORKPROF') else None


class Infeasible(Exception):
    pass


class Ctx:
    def __init__(self):
        self.forced = 0
        self.prefix = []
        self.pos = 0
        self.solver = z3.Solver()
        self.side = []
        self.queries = 0
        self.secs = 0.0
        self.axioms = set()
        self.onesided = set()


def _check(s, *a):
    t = time.perf_counter()
    r = s.check(*a)
    CTX.queries += 1
    CTX.secs += time.perf_counter() - t
    return r


def lift(x):
    if isinstance(x, BV):
        return x.t
    if isinstance(x, bool):
        x = int(x)
    if isinstance(x, int):
        return z3.BitVecVal(x, W)
    raise TypeError(type(x))


class SBool:
    def __init__(self, t):
        self.t = t

    def __bool__(self):
        c = CTX
        if c.pos < len(c.prefix):
            v = c.prefix[c.pos]
            if c.pos == c.forced - 1:
                # the flipped decision of this re-execution: prune it if the solver says it is infeasible
                c.solver.push()
                c.solver.add(self.t if v else z3.Not(self.t))
                r = _check(c.solver)
                c.solver.pop()
                if r == z3.unsat:
                    raise Infeasible()
        else:
            c.solver.push()
            c.solver.add(self.t)
            r = _check(c.solver)
            c.solver.pop()
            v = (r == z3.sat)
            if v:
                # is the other side feasible too?  (decided now, so that one-sided decisions are never re-executed)
                c.solver.push()
                c.solver.add(z3.Not(self.t))
                r2 = _check(c.solver)
                c.solver.pop()
                if r2 == z3.unsat:
                    c.onesided.add(len(c.prefix))
                elif FORKLOG is not None:
                    import traceback as _tb
                    fr = [f for f in _tb.extract_stack(limit=12) if 'bvx.py' not in f.filename][-3:]
                    key = ' < '.join('%s:%d' % (f.filename.split('/')[-1][-28:], f.lineno) for f in reversed(fr))
                    FORKLOG[key] = FORKLOG.get(key, 0) + 1
            else:
                c.onesided.add(len(c.prefix))
            c.prefix.append(v)
        c.pos += 1
        c.solver.add(self.t if v else z3.Not(self.t))
        return v


class BV:
    def __init__(self, t):
        self.t = t

    def _b(self, o, f):
        return BV(f(self.t, lift(o)))

    def _rb(self, o, f):
        return BV(f(lift(o), self.t))

    def __add__(s, o):
        CTX.side.append(z3.BVAddNoOverflow(s.t, lift(o), False))
        return s._b(o, lambda a, b: a + b)
    __radd__ = __add__

    def __sub__(s, o):
        return s._b(o, lambda a, b: a - b)

    def __rsub__(s, o):
        return s._rb(o, lambda a, b: a - b)

    def __mul__(s, o):
        CTX.side.append(z3.BVMulNoOverflow(s.t, lift(o), False))
        return s._b(o, lambda a, b: a * b)
    __rmul__ = __mul__

    def __and__(s, o):
        return s._b(o, lambda a, b: a & b)
    __rand__ = __and__

    def __or__(s, o):
        return s._b(o, lambda a, b: a | b)
    __ror__ = __or__

    def __xor__(s, o):
        return s._b(o, lambda a, b: a ^ b)
    __rxor__ = __xor__

    def __lshift__(s, o):
        assert isinstance(o, int)
        if o:
            CTX.side.append(z3.LShR(s.t, W - o) == 0)
        return BV(s.t << o)

    def __rshift__(s, o):
        assert isinstance(o, int)
        return BV(z3.LShR(s.t, o))

    def __mod__(s, o):
        return s._b(o, z3.URem)

    def __floordiv__(s, o):
        return s._b(o, z3.UDiv)

    def __neg__(s):
        # Python's -x is negative; every kernel masks the result (& 0xffff...), and two's complement agrees
        # with the mathematical value modulo 2^64, hence modulo any smaller power of two.
        return BV(-s.t)

    def __eq__(s, o):
        return SBool(s.t == lift(o))

    def __ne__(s, o):
        return SBool(s.t != lift(o))

    def __lt__(s, o):
        return SBool(z3.ULT(s.t, lift(o)))

    def __le__(s, o):
        return SBool(z3.ULE(s.t, lift(o)))

    def __gt__(s, o):
        return SBool(z3.UGT(s.t, lift(o)))

    def __ge__(s, o):
        return SBool(z3.UGE(s.t, lift(o)))

    def __bool__(s):
        return bool(SBool(s.t != 0))

    def __hash__(s):
        return id(s)

    def __int__(s):
        return s

    def __index__(s):
        raise TypeError('symbolic index')


class SymTable:
    """a static table whose __getitem__ accepts a symbolic index (if-then-else over the real values)"""
    def __init__(self, tbl):
        self.tbl = list(tbl)

    def __getitem__(self, i):
        if isinstance(i, BV):
            t = z3.BitVecVal(self.tbl[-1], W)
            for k in range(len(self.tbl) - 2, -1, -1):
                t = z3.If(i.t == k, z3.BitVecVal(self.tbl[k], W), t)
            return BV(t)
        return self.tbl[i]

    def __len__(self):
        return len(self.tbl)


class SBytes(bytes):
    """bytes subclass of CONCRETE length whose items are 8-bit symbolic values zero-extended to 64 bits"""
    def __new__(cls, items):
        o = bytes.__new__(cls, len(items))
        o.items = items
        return o

    def __iter__(self):
        return iter(self.items)

    def __getitem__(self, i):
        if isinstance(i, slice):
            return SBytes(self.items[i])
        return self.items[i]

    def __len__(self):
        return len(self.items)


def sym_bytes(n, name='b'):
    return SBytes([BV(z3.ZeroExt(W - 8, z3.BitVec('%s%d' % (name, i), 8))) for i in range(n)])


def bv(name, bits):
    return BV(z3.ZeroExt(W - bits, z3.BitVec(name, bits)))


def _xcheck(assertions, cap=60):
    """re-decide with the external binaries; returns dict solver -> answer"""
    s = z3.Solver()
    for a in assertions:
        s.add(a)
    body = s.to_smt2().replace('(set-info :status unknown)', '')
    txt = ('(set-logic QF_BV)\n' if ('Int' not in body and 'declare-fun' not in body.replace('() (_ BitVec', '')) else '(set-logic ALL)\n') + body
    d = tempfile.mkdtemp(prefix='vf_bvx_')
    out = {}
    try:
        p = os.path.join(d, 'q.smt2')
        with open(p, 'w') as f:
            f.write(txt)
        for name, cmd in (('z3-4.8.12', ['/usr/bin/z3', '-T:%d' % cap, p]), ('cvc5', ['cvc5', '--tlimit=%d' % (cap * 1000), p])):
            if not (os.path.exists(cmd[0]) or shutil.which(cmd[0])):
                out[name] = 'absent'
                continue
            try:
                r = subprocess.run(cmd, stdout=subprocess.PIPE, stderr=subprocess.STDOUT, timeout=cap + 20)
                o = r.stdout.decode('utf-8', 'replace')
                if '(error' in o:
                    out[name] = 'error'
                else:
                    first = (o.strip().splitlines() or ['?'])[0].strip()
                    out[name] = first if first in ('sat', 'unsat', 'unknown', 'timeout') else 'timeout' if 'timeout' in o or 'interrupted' in o else first[:30]
            except subprocess.TimeoutExpired:
                out[name] = 'timeout'
    finally:
        shutil.rmtree(d, ignore_errors=True)
    return out


def explore(fn, mkargs, prop, assumptions=(), xcheck=2, max_paths=100000):
    """run fn on every feasible path; check prop(result, args) with the solver.
    returns dict(verdict, paths, solver_calls, solver_s, model, xchecks)"""
    global CTX
    if os.environ.get('VF_TWIN') == '1':
        # reachability twin: the property is replaced by False; must come back refuted (some path reaches the end)
        prop = lambda res, args: z3.BoolVal(False)   # noqa: E731
        xcheck = 0
    stack = [[]]
    paths = 0
    queries = 0
    secs = 0.0
    xres = []
    t0 = time.perf_counter()
    while stack:
        prefix = stack.pop()
        CTX = Ctx()
        CTX.prefix = list(prefix)
        CTX.forced = len(prefix)
        args = mkargs()
        for a in assumptions:
            CTX.solver.add(a(args))
        try:
            res = fn(*args)
        except Infeasible:
            queries += CTX.queries
            secs += CTX.secs
            continue
        paths += 1
        decided = CTX.prefix
        for i in range(len(prefix), len(decided)):
            if i not in CTX.onesided:
                stack.append(decided[:i] + [not decided[i]])
        s = CTX.solver
        verdict = None
        model = None
        if CTX.side:
            sidec = z3.Not(z3.And(CTX.side))
            s.push()
            s.add(sidec)
            r = _check(s)
            if r != z3.unsat:
                verdict, model = 'inconclusive', ('64-bit side condition violated (value may exceed the bit-vector width)')
            s.pop()
        if verdict is None:
            neg = z3.Not(prop(res, args))     # built BEFORE push: term construction may add table axioms to the solver
            s.push()
            s.add(neg)
            r = _check(s)
            if r == z3.sat:
                verdict, model = 'refuted', s.model()
            elif r != z3.unsat:
                verdict, model = 'inconclusive', 'solver returned unknown'
            elif len(xres) < xcheck:
                xr = _xcheck(s.assertions())
                xres.append(xr)
                if 'sat' in xr.values():
                    verdict, model = 'inconclusive', 'second solver disagrees: %r' % xr
            s.pop()
        queries += CTX.queries
        secs += CTX.secs
        if verdict is not None:
            return {'verdict': verdict, 'paths': paths, 'solver_calls': queries, 'solver_s': round(secs, 3), 'model': model, 'xchecks': xres,
                    'wall_s': round(time.perf_counter() - t0, 2)}
        if paths >= max_paths:
            return {'verdict': 'inconclusive', 'paths': paths, 'solver_calls': queries, 'solver_s': round(secs, 3), 'model': 'path budget', 'xchecks': xres}
    return {'verdict': 'confirmed', 'paths': paths, 'solver_calls': queries, 'solver_s': round(secs, 3), 'model': None, 'xchecks': xres,
            'wall_s': round(time.perf_counter() - t0, 2)}
