"""struct model for CrossHair: linear (de)composition with memo of byte decompositions"""
import re
import z3
from crosshair.libimpl.builtinslib import SymbolicInt
from crosshair.core import proxy_for_type
from crosshair.util import IgnoreAttempt
from crosshair.tracers import NoTracing
from crosshair.statespace import optional_context_statespace as context_statespace
_cur = [None]
def _sync():
    with NoTracing():
        sp = context_statespace()
        if sp is not _cur[0]:
            _cur[0] = sp
            _memo.clear(); _keep.clear()
            _ctr[0] = 0

class error(Exception):
    pass
_SIZES = {'B':1,'b':1,'H':2,'h':2,'L':4,'l':4,'I':4,'i':4,'Q':8,'q':8,'x':1}
_ctr = [0]
_memo = {}
_keep = []
_fmtcache = {}
def _parse(fmt):
    if fmt in _fmtcache:
        return _fmtcache[fmt]
    f = fmt
    order = '<'
    if f[0] in '<>=!@':
        order = f[0]; f = f[1:]
    if order in '=@': order = '<'
    if order == '!': order = '>'
    items = []
    for m in re.finditer(r'(\d*)([a-zA-Z])', f):
        n = int(m.group(1)) if m.group(1) else 1
        c = m.group(2)
        if c == 's':
            items.append(('s', n))
        else:
            for _ in range(n):
                items.append((c, _SIZES[c]))
    _fmtcache[fmt] = (order, items)
    return order, items
def calcsize(fmt):
    return sum(sz for _, sz in _parse(fmt)[1])
def _key(v):
    with NoTracing():
        var = getattr(v, 'var', None)
        if var is None:
            return None
        _keep.append(var)
        return var.get_id()
def unpack_from(fmt, buf, offset=0):
    _sync()
    order, items = _parse(fmt)
    total = sum(sz for _, sz in items)
    if len(buf) - offset < total:
        raise error('unpack_from requires a buffer of at least %d bytes' % total)
    out = []
    pos = offset
    for c, sz in items:
        if c == 's':
            out.append(bytes(buf[pos:pos+sz]))
        elif c == 'x':
            pass
        else:
            bs = [buf[pos + i] for i in range(sz)]
            if order == '>':
                bs.reverse()
            v = 0
            for i in range(sz):
                v = v + bs[i] * (256 ** i)
            if c.islower():
                if v >= (1 << (8*sz - 1)):
                    v -= (1 << (8*sz))
            k = _key(v)
            if k is not None:
                _memo[(k, sz)] = bs
            out.append(v)
        pos += sz
    return tuple(out)
def unpack(fmt, buf):
    if len(buf) != calcsize(fmt):
        raise error('unpack requires a buffer of %d bytes' % calcsize(fmt))
    return unpack_from(fmt, buf, 0)
def _bytes_of(v, sz):
    with NoTracing():
        concrete = type(v) is int
    if concrete:
        return [(v >> (8*i)) & 0xff for i in range(sz)]
    k = _key(v)
    if k is not None and (k, sz) in _memo:
        return list(_memo[(k, sz)])
    # fresh byte variables constrained DIRECTLY on the path (no branch): 0 <= b_i <= 255, sum b_i*256^i == v.
    # Always satisfiable because lo <= v <= hi was established by the caller's range check.
    with NoTracing():
        has_var = hasattr(v, 'var')
    if not has_var:
        v = int(v)      # not an atomic symbolic integer: realise (a finite fork) and encode concretely
        return [(v >> (8 * i)) & 0xff for i in range(sz)]
    with NoTracing():
        space = context_statespace()
        vs = []
        tot = 0
        for i in range(sz):
            _ctr[0] += 1
            b = z3.Int('pk%d' % _ctr[0])
            space.add(z3.And(b >= 0, b <= 255))
            vs.append(b)
            tot = tot + b * (256 ** i)
        space.add(tot == v.var)
        bs = [SymbolicInt(b) for b in vs]
    if k is not None:
        _memo[(k, sz)] = bs
    return list(bs)
def pack(fmt, *args):
    _sync()
    order, items = _parse(fmt)
    out = []
    ai = 0
    for c, sz in items:
        if c == 'x':
            out.append(b'\x00'); continue
        v = args[ai]; ai += 1
        if c == 's':
            v = bytes(v)
            if len(v) >= sz:
                out.append(v[:sz])
            else:
                out.append(v + b'\x00' * (sz - len(v)))
        else:
            if c.islower():
                lo, hi = -(1 << (8*sz-1)), (1 << (8*sz-1)) - 1
            else:
                lo, hi = 0, (1 << (8*sz)) - 1
            if not (lo <= v <= hi):
                raise error('argument out of range')
            if c.islower() and sz == 1:
                # signed byte: keep simple two-branch form
                if v < 0:
                    v = v + 256
            elif v < 0:
                v += 1 << (8*sz)
            bs = _bytes_of(v, sz)
            if order == '>':
                bs.reverse()
            out.append(bytes(bs))
    return b''.join(out)
