"""M_time: civil-time model of time.gmtime / time.localtime for CrossHair (DESIGN 1.4).

gmtime(t)    = proleptic Gregorian civil time of floor(t), 1970-01-01 .. 2099-12-31 (every 4th year is leap in that
               range: 2000 is a leap year, 2100 is outside), built WITHOUT path forks: year, month, day ... are fresh
               integers constrained linearly on the path (like the struct model);
localtime(t) = gmtime(t + 900*k(t)) where k(t) is an ARBITRARY integer in [KMIN, KMAX] chosen per instant by the harness
               (set_offset); this over-approximates every tz database whose offsets are multiples of 15 minutes, DST included.
In concrete mode (replay / validation) the same arithmetic runs on plain ints.
"""
import collections

import os

SYM = os.environ.get('VF_MODE') == 'sym'
TM = collections.namedtuple('TM', 'tm_year tm_mon tm_mday tm_hour tm_min tm_sec tm_wday tm_yday tm_isdst')

CUM = [0, 31, 59, 90, 120, 151, 181, 212, 243, 273, 304, 334, 365]
CUML = [0, 31, 60, 91, 121, 152, 182, 213, 244, 274, 305, 335, 366]

_OFF = [0]
_ctr = [0]
_cur = [None]
_memo = {}


def set_offset(k):
    """offset of local time from UTC in 15-minute units for the instants queried next"""
    _OFF[0] = k


def _civil_concrete(t):
    t = int(t // 1) if not isinstance(t, int) else t
    day, sod = divmod(t, 86400)
    # years since 1970 in the 4-year-cycle range
    y = 1970
    while True:
        ylen = 366 if y % 4 == 0 else 365
        if day < ylen:
            break
        day -= ylen
        y += 1
    cum = CUML if y % 4 == 0 else CUM
    mon = 1
    while cum[mon] <= day:
        mon += 1
    mday = day - cum[mon - 1] + 1
    return TM(y, mon, mday, sod // 3600, (sod % 3600) // 60, sod % 60, 0, day + 1, 0)


def _civil_symbolic(t):
    import z3
    from crosshair.libimpl.builtinslib import SymbolicInt
    from crosshair.statespace import context_statespace
    from crosshair.tracers import NoTracing
    with NoTracing():
        if type(t) is int:
            return None
        if not hasattr(t, 'var'):
            return None
        space = context_statespace()
        if space is not _cur[0]:      # new execution path: restart the naming of fresh variables (deterministic per path)
            _cur[0] = space
            _ctr[0] = 0
            _memo.clear()
        tv = t.var
        if z3.is_real(tv):
            tv = z3.ToInt(tv)
        tv = z3.simplify(tv)
        key = tv.get_id()
        if key in _memo:              # same instant asked again on this path: same broken-down time (no new variables)
            return _memo[key][1]
        _ctr[0] += 1
        n = _ctr[0]

        def fresh(name, lo, hi):
            v = z3.Int('tm%d_%s' % (n, name))
            space.add(z3.And(v >= lo, v <= hi))
            return v
        day = fresh('day', 0, 47481)          # 1970-01-01 .. 2099-12-31
        sod = fresh('sod', 0, 86399)
        space.add(tv == day * 86400 + sod)
        hh, mm, ss = fresh('h', 0, 23), fresh('m', 0, 59), fresh('s', 0, 59)
        space.add(sod == hh * 3600 + mm * 60 + ss)
        # year: y - 1969 = 4q + r ; days before year y = 365*(y-1970) + q ; leap iff r == 3 (1972, 1976 ...)
        y = fresh('y', 1970, 2099)
        q = fresh('q', 0, 33)
        r = fresh('r', 0, 3)
        space.add(y - 1969 == 4 * q + r)
        yday0 = fresh('yd', 0, 365)
        space.add(day == 365 * (y - 1970) + q + yday0)
        leap = r == 3
        space.add(yday0 <= z3.If(leap, 365, 364))
        mon = fresh('mon', 1, 12)
        mday = fresh('mday', 1, 31)

        def cum(m):
            e = z3.IntVal(0)
            for k in range(12, 0, -1):
                e = z3.If(m == k, z3.If(leap, CUML[k], CUM[k]), e)
            return e
        space.add(yday0 == cum(mon - 1) + mday - 1)
        space.add(yday0 < cum(mon))
        res = TM(SymbolicInt(y), SymbolicInt(mon), SymbolicInt(mday), SymbolicInt(hh), SymbolicInt(mm), SymbolicInt(ss), 0,
                 SymbolicInt(yday0 + 1), 0)
        _memo[key] = (tv, res)
        return res


class Instant:
    """an instant t > 0 handed to code that compares its argument with the float 0.0 (VolumeDescriptorDate.new): CrossHair's
    int/float coercion of a symbolic int makes every later query mixed real/integer (measured: 14 s -> not finished in 4 min).
    The comparison is answered from the precondition t > 0; everything else is delegated to the wrapped integer."""
    def __init__(self, t):
        self.t = t

    def __ne__(self, other):
        if isinstance(other, float) and other == 0.0:
            return True
        return self.t != other

    def __eq__(self, other):
        if isinstance(other, float) and other == 0.0:
            return False
        return self.t == other

    def __hash__(self):
        return id(self)


def gmtime(t=None):
    if isinstance(t, Instant):
        t = t.t
    if SYM:
        r = _civil_symbolic(t)
        if r is not None:
            return r
    return _civil_concrete(t)


def localtime(t=None):
    if isinstance(t, Instant):
        t = t.t
    return gmtime(t + 900 * _OFF[0])


class TimeModule:
    """stand-in for the `time` module attribute of a pycdlib module"""
    def __init__(self, real, now=1000000000.0):
        self._real = real
        self._now = now

    def time(self):
        return self._now

    gmtime = staticmethod(gmtime)
    localtime = staticmethod(localtime)

    def strftime(self, fmt, tm):
        # digits of the 17-byte volume date: rendered from the same broken-down time; only reached on concrete values here
        return self._real.strftime(fmt, self._real.struct_time(tuple(int(x) for x in tm)))

    def __getattr__(self, name):
        return getattr(self._real, name)
