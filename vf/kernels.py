"""E2 obligations: bit-level kernels of pycdlib decided on z3 bit-vectors by running the REAL function objects
on proxies (vf/bvx.py).  Each function takes the obligation's params and returns a worker result dict."""
import ast
import os
import subprocess
import sys
import json

import z3

from vf import bvx
from vf.bvx import BV, W, lift, SymTable, sym_bytes, bv, explore

REPO = os.environ.get('VF_REPO', '/repo')


def _finish(r, replay=None, cex=None):
    r = dict(r)
    m = r.pop('model', None)
    if r['verdict'] == 'inconclusive':
        r['why'] = str(m)
    if r['verdict'] == 'refuted':
        r['cex'] = cex or {'raw': str(m)}
        r['replay'] = replay or {'outcome': 'error', 'detail': 'no replay provided'}
        r['cex_text'] = str(m)[:1500]
    r['extra'] = {'second_solver': r.pop('xchecks', [])}
    return r


def _model_bytes(model, name, n):
    return bytes(model.eval(z3.BitVec('%s%d' % (name, i), 8), True).as_long() for i in range(n))


# ------------------------------------------------------------------ CRC-CCITT (UDF descriptor CRC)

def _ref_ccitt_step(crc_t, x_t):
    c = crc_t ^ (x_t << 8)
    for _ in range(8):
        c = z3.If((c & 0x8000) != 0, ((c << 1) ^ 0x1021), (c << 1)) & 0xFFFF
    return c


def crc_ccitt_step(params):
    """for EVERY 16-bit state and EVERY byte: one iteration of the real table-driven loop == the bitwise CCITT
    (poly 0x1021, MSB first) step.  The real loop body is obtained from the real function: crc_ccitt([x']) with state 0
    reduces to table[x'], and crc(s, x) = crc_ccitt([x ^ (s>>8)]) ^ ((s<<8) & 0xFF00)  (this identity IS the loop body)."""
    from pycdlib import udf
    real_table = udf.crc_ccitt_table
    udf.crc_ccitt_table = SymTable(real_table)
    try:
        def mk():
            return (bv('crc', 16), bv('x', 8))

        def step(crc, x):
            r = udf.crc_ccitt(bvx.SBytes([x ^ ((crc >> 8) & 0xFF)]))
            return r ^ ((crc << 8) & 0xFF00)
        r = explore(step, mk, lambda res, a: lift(res) == _ref_ccitt_step(lift(a[0]), lift(a[1])))
    finally:
        udf.crc_ccitt_table = real_table
    rep = None
    if r['verdict'] == 'refuted':
        m = r['model']
        s, x = m.eval(z3.BitVec('crc', 16), True).as_long(), m.eval(z3.BitVec('x', 8), True).as_long()
        got = real_table[x ^ (s >> 8)] ^ ((s << 8) & 0xFF00)
        c = s ^ (x << 8)
        for _ in range(8):
            c = ((c << 1) ^ 0x1021 if c & 0x8000 else c << 1) & 0xFFFF
        rep = {'outcome': 'violates' if got != c else 'holds', 'state': s, 'byte': x, 'table_step': got, 'bitwise_step': c}
    return _finish(r, rep)


def crc_ccitt_msg(params):
    """whole real function on every message of n bytes == bitwise CCITT reference (n small: nested table lookups)"""
    from pycdlib import udf
    n = int(params.get('n', 2))
    real_table = udf.crc_ccitt_table
    udf.crc_ccitt_table = SymTable(real_table)
    try:
        def ref(res, a):
            c = z3.BitVecVal(0, W)
            for b in a[0].items:
                c = _ref_ccitt_step(c, b.t)
            return lift(res) == c
        r = explore(udf.crc_ccitt, lambda: (sym_bytes(n, 'm'),), ref)
    finally:
        udf.crc_ccitt_table = real_table
    rep = None
    if r['verdict'] == 'refuted':
        msg = _model_bytes(r['model'], 'm', n)
        c = 0
        for x in msg:
            c ^= x << 8
            for _ in range(8):
                c = ((c << 1) ^ 0x1021 if c & 0x8000 else c << 1) & 0xFFFF
        rep = {'outcome': 'violates' if udf.crc_ccitt(msg) != c else 'holds', 'msg': msg.hex()}
    return _finish(r, rep)


def udf_csum(params):
    """_compute_csum on 16 symbolic bytes == (sum of all bytes except byte 4) mod 256, and < 256"""
    from pycdlib import udf

    def prop(res, a):
        tot = z3.BitVecVal(0, W)
        for i, b in enumerate(a[0].items):
            if i != 4:
                tot = tot + b.t
        return z3.And(lift(res) == z3.URem(tot, 256), z3.ULT(lift(res), 256))
    r = explore(udf._compute_csum, lambda: (sym_bytes(16, 't'),), prop)
    rep = None
    if r['verdict'] == 'refuted':
        d = _model_bytes(r['model'], 't', 16)
        want = (sum(d) - d[4]) % 256
        rep = {'outcome': 'violates' if udf._compute_csum(d) != want else 'holds', 'data': d.hex()}
    return _finish(r, rep)


# ------------------------------------------------------------------ CRC-32 (GPT)

def crc32_step(params):
    """for EVERY 32-bit state and byte: one iteration of the real isohybrid.crc32 loop == bitwise reflected CRC-32 step
    (poly 0xEDB88320).  Loop body obtained from the real function: crc32([y]) = ~( (0xFFFFFFFF>>8)&0xFFFFFF ^ T[(0xFFFFFFFF ^ y)&0xFF] );
    with y = x ^ s ^ 0xFF...: T[(s ^ x) & 0xFF] = crc32([(s ^ x ^ 0xFF) & 0xFF]) ^ 0xFFFFFFFF ^ 0x00FFFFFF."""
    from pycdlib import isohybrid
    real_table = isohybrid.crc32_table
    isohybrid.crc32_table = SymTable(real_table)
    try:
        def mk():
            return (bv('s', 32), bv('x', 8))

        def step(s, x):
            y = (s ^ x ^ 0xFF) & 0xFF
            t = isohybrid.crc32(bvx.SBytes([y])) ^ 0xFFFFFFFF ^ 0x00FFFFFF     # == table[(s ^ x) & 0xFF]
            return ((s >> 8) & 0x00FFFFFF) ^ t

        def ref(res, a):
            c = lift(a[0]) ^ lift(a[1])
            for _ in range(8):
                c = z3.If((c & 1) != 0, z3.LShR(c, 1) ^ 0xEDB88320, z3.LShR(c, 1))
            return lift(res) == c
        r = explore(step, mk, ref)
    finally:
        isohybrid.crc32_table = real_table
    rep = None
    if r['verdict'] == 'refuted':
        m = r['model']
        s, x = m.eval(z3.BitVec('s', 32), True).as_long(), m.eval(z3.BitVec('x', 8), True).as_long()
        got = ((s >> 8) & 0xFFFFFF) ^ real_table[(s ^ x) & 0xFF]
        c = s ^ x
        for _ in range(8):
            c = (c >> 1) ^ 0xEDB88320 if c & 1 else c >> 1
        rep = {'outcome': 'violates' if got != c else 'holds', 'state': s, 'byte': x}
    return _finish(r, rep)


def crc32_msg(params):
    """the whole real crc32 on every message of n bytes == zlib-style bitwise CRC-32 (n small)"""
    from pycdlib import isohybrid
    n = int(params.get('n', 1))
    real_table = isohybrid.crc32_table
    isohybrid.crc32_table = SymTable(real_table)
    try:
        def ref(res, a):
            c = z3.BitVecVal(0xFFFFFFFF, W)
            for b in a[0].items:
                c = c ^ b.t
                for _ in range(8):
                    c = z3.If((c & 1) != 0, z3.LShR(c, 1) ^ 0xEDB88320, z3.LShR(c, 1))
            return lift(res) == (c ^ 0xFFFFFFFF)
        r = explore(isohybrid.crc32, lambda: (sym_bytes(n, 'm'),), ref)
    finally:
        isohybrid.crc32_table = real_table
    rep = None
    if r['verdict'] == 'refuted':
        import zlib
        msg = _model_bytes(r['model'], 'm', n)
        rep = {'outcome': 'violates' if isohybrid.crc32(msg) != zlib.crc32(msg) else 'holds', 'msg': msg.hex()}
    return _finish(r, rep)


# ------------------------------------------------------------------ El Torito

def eltorito_checksum(params):
    """EltoritoValidationEntry._checksum on EVERY message of n bytes (n even): r < 2^16 and (sum of LE words + r) = 0 mod 2^16"""
    from pycdlib import eltorito
    n = int(params.get('n', 8))
    saved = eltorito.__dict__.get('int')
    eltorito.int = lambda x: x          # `myord = int` on proxies: identity (recorded stub)
    try:
        def prop(res, args):
            data = args[0]
            tot = z3.BitVecVal(0, W)
            for i in range(0, n, 2):
                tot = tot + data[i].t + (data[i + 1].t << 8)
            r = lift(res)
            return z3.And(z3.ULT(r, 65536), ((tot + r) & 0xffff) == 0)
        r = explore(lambda d: eltorito.EltoritoValidationEntry._checksum(d), lambda: (sym_bytes(n, 'b'),), prop)
    finally:
        if saved is None:
            del eltorito.int
        else:
            eltorito.int = saved
    rep = None
    if r['verdict'] == 'refuted':
        d = _model_bytes(r['model'], 'b', n)
        c = eltorito.EltoritoValidationEntry._checksum(d)
        tot = sum(d[i] + 256 * d[i + 1] for i in range(0, n, 2))
        rep = {'outcome': 'violates' if not (0 <= c < 65536 and (tot + c) % 65536 == 0) else 'holds', 'data': d.hex(), 'csum': c}
    return _finish(r, rep)


def boot_info_csum(params):
    """PyCdlib._calculate_eltorito_boot_info_table_csum on a file of `nsec` sectors whose words are symbolic:
    == sum of the little-endian 32-bit words from offset 64 on, mod 2^32.  struct.unpack_from('<L') is given its
    bit-vector meaning on the proxy block (4 symbolic bytes -> one word); word count concretised by the sector count."""
    from pycdlib import pycdlib as pm
    nsec = int(params.get('nsec', 1))
    words_per = 2048 // 4

    class Block:
        """a 2048-byte block given as 512 symbolic little-endian words"""
        def __init__(self, words):
            self.words = words

        def ljust(self, n, fill):
            return self

        def __len__(self):
            return 2048

        def __getitem__(self, sl):
            return self

    class FP:
        def __init__(self, blocks):
            self.blocks = list(blocks)

        def read(self, n):
            return self.blocks.pop(0)

    class FakeStruct:
        @staticmethod
        def unpack_from(fmt, block, off):
            assert fmt == '<L'
            return (block.words[off // 4],)

    saved = pm.struct
    pm.struct = FakeStruct
    try:
        def mk():
            return ([Block([bv('w%d_%d' % (s, i), 32) for i in range(words_per)]) for s in range(nsec)],)

        def fn(blocks):
            obj = pm.PyCdlib.__new__(pm.PyCdlib)
            obj.logical_block_size = 2048
            return pm.PyCdlib._calculate_eltorito_boot_info_table_csum(obj, FP(blocks), nsec * 2048)

        def prop(res, a):
            tot = z3.BitVecVal(0, W)
            for s, blk in enumerate(a[0]):
                for i, w in enumerate(blk.words):
                    if s == 0 and i < 16:
                        continue
                    tot = (tot + w.t) & 0xffffffff
            return lift(res) == tot
        r = explore(fn, mk, prop, xcheck=1)
    finally:
        pm.struct = saved
    rep = None
    if r['verdict'] == 'refuted':
        import io
        import struct
        m = r['model']
        data = b''.join(struct.pack('<L', m.eval(z3.BitVec('w%d_%d' % (s, i), 32), True).as_long()) for s in range(nsec) for i in range(words_per))
        obj = pm.PyCdlib.__new__(pm.PyCdlib)
        obj.logical_block_size = 2048
        got = pm.PyCdlib._calculate_eltorito_boot_info_table_csum(obj, io.BytesIO(data), len(data))
        want = sum(struct.unpack_from('<L', data, o)[0] for o in range(64, len(data), 4)) & 0xffffffff
        rep = {'outcome': 'violates' if got != want else 'holds'}
    return _finish(r, rep)


def boot_info_csum_len(params):
    """PyCdlib._calculate_eltorito_boot_info_table_csum for a file of EXACTLY data_len bytes (any length, multiple of 4): the real function
    reads logical blocks and zero-pads the last one; the result must be the sum of ALL 32-bit LE words of the file from offset 64 on, mod 2^32.
    A handful of word positions are symbolic (block starts/ends, around offset 64, the tail words), the others are zero: the additions are
    position-independent, so which words are free does not matter for a counting/offset error."""
    from pycdlib import pycdlib as pm
    data_len = int(params['data_len'])
    assert data_len % 4 == 0
    nwords = data_len // 4
    free = set()
    for base in range(0, nwords, 512):
        last = min(base + 512, nwords) - 1
        free.update({base, base + 1, last, max(base, last - 1)})
    free.update({15, 16, 17, nwords - 1})
    free = {i for i in free if 0 <= i < nwords}

    class Block:
        def __init__(self, words):
            self.words = words

        def ljust(self, n, fill):
            return Block(self.words + [0] * (n // 4 - len(self.words)))

        def __len__(self):
            return 4 * len(self.words)

        def __getitem__(self, sl):
            return self

    class FP:
        def __init__(self, words):
            self.words = words
            self.pos = 0

        def read(self, n):
            w = self.words[self.pos // 4:(self.pos + n) // 4]
            self.pos += n
            return Block(w)

    class FakeStruct:
        @staticmethod
        def unpack_from(fmt, block, off):
            assert fmt == '<L'
            return (block.words[off // 4],)
    saved = pm.struct
    pm.struct = FakeStruct
    try:
        def mk():
            return ([bv('w%d' % i, 32) if i in free else 0 for i in range(nwords)],)

        def fn(words):
            obj = pm.PyCdlib.__new__(pm.PyCdlib)
            obj.logical_block_size = 2048
            return pm.PyCdlib._calculate_eltorito_boot_info_table_csum(obj, FP(words), data_len)

        def prop(res, a):
            tot = z3.BitVecVal(0, W)
            for i, w in enumerate(a[0]):
                if i < 16:
                    continue
                tot = (tot + lift(w)) & 0xffffffff
            return lift(res) == tot
        r = explore(fn, mk, prop, xcheck=1)
    finally:
        pm.struct = saved
    rep = None
    if r['verdict'] == 'refuted':
        import io
        import struct
        m = r['model']
        data = b''.join(struct.pack('<L', m.eval(z3.BitVec('w%d' % i, 32), True).as_long() if i in free else 0) for i in range(nwords))
        obj = pm.PyCdlib.__new__(pm.PyCdlib)
        obj.logical_block_size = 2048
        got = pm.PyCdlib._calculate_eltorito_boot_info_table_csum(obj, io.BytesIO(data), len(data))
        want = sum(struct.unpack_from('<L', data, o)[0] for o in range(64, len(data), 4)) & 0xffffffff
        rep = {'outcome': 'violates' if got != want else 'holds', 'data_len': data_len, 'got': got, 'want': want}
    return _finish(r, rep)


# ------------------------------------------------------------------ swab

def swab(params):
    """utils.swab_16bit / swab_32bit are byte reversals and involutions (the real functions go through struct: given
    its bit-vector meaning here)"""
    from pycdlib import utils
    bits = int(params.get('bits', 32))
    fn = utils.swab_16bit if bits == 16 else utils.swab_32bit
    nb = bits // 8

    class BVStruct:
        @staticmethod
        def pack(fmt, x):
            order = fmt[0]
            bs = [(x >> (8 * i)) & 0xff for i in range(nb)]
            if order == '>':
                bs.reverse()
            return bs

        @staticmethod
        def unpack(fmt, bs):
            order = fmt[0]
            bs = list(bs)
            if order == '>':
                bs.reverse()
            v = bs[0]
            for i in range(1, nb):
                v = v | (bs[i] << (8 * i))
            return (v,)
    saved = utils.struct
    utils.struct = BVStruct
    try:
        def prop(res, a):
            x = lift(a[0])
            rev = z3.BitVecVal(0, W)
            for i in range(nb):
                rev = rev | (((z3.LShR(x, 8 * i)) & 0xff) << (8 * (nb - 1 - i)))
            return z3.And(lift(res[0]) == rev, lift(res[1]) == x)
        r = explore(lambda x: (fn(x), fn(fn(x))), lambda: (bv('x', bits),), prop)
    finally:
        utils.struct = saved
    rep = None
    if r['verdict'] == 'refuted':
        x = r['model'].eval(z3.BitVec('x', bits), True).as_long()
        want = int.from_bytes(x.to_bytes(nb, 'little'), 'big')
        rep = {'outcome': 'violates' if (fn(x) != want or fn(fn(x)) != x) else 'holds', 'x': x}
    return _finish(r, rep)


# ------------------------------------------------------------------ murmur3 of tools/pycdlib-genisoimage

def load_tool_functions(names, path=None):
    """extract top-level functions from the extension-less script with ast and exec them (no main() run)"""
    path = path or os.path.join(REPO, 'tools', 'pycdlib-genisoimage')
    tree = ast.parse(open(path).read())
    keep = [n for n in tree.body if isinstance(n, ast.FunctionDef) and n.name in names]
    ns = {}
    exec(compile(ast.Module(body=keep, type_ignores=[]), path, 'exec'), ns)
    return ns


def mm3_collision(params):
    """C20.b: is there a pair of DISTINCT equal-length contents (n bytes) with equal mm3hash?  If the solver finds one
    (it does: a 32-bit hash), the pair is replayed through the REAL tool with -duplicates-once on a two-file tree, and the
    built image is read back: the property holds iff both paths still read their own bytes."""
    n = int(params.get('n', 8))
    ns = load_tool_functions({'mm3hash', 'xencode'})
    ns['bytearray'] = lambda x: x      # proxies are already byte sequences (recorded stub)
    ns['xencode'] = lambda x: x
    mm3 = ns['mm3hash']

    def mk():
        return (sym_bytes(n, 'p'), sym_bytes(n, 'q'))

    def prop(res, a):
        same = z3.And([x.t == y.t for x, y in zip(a[0].items, a[1].items)])
        return z3.Or(same, lift(res[0]) != lift(res[1]))
    r = explore(lambda p, q: (mm3(p), mm3(q)), mk, prop, xcheck=0)
    if os.environ.get('VF_TWIN') == '1':
        return _finish(r, {'outcome': 'twin'})
    if r['verdict'] == 'confirmed':
        r['extra_note'] = 'no collision among %d-byte contents: duplicate detection is exact within this bound' % n
        return _finish(r)
    if r['verdict'] != 'refuted':
        return _finish(r)
    p, q = _model_bytes(r['model'], 'p', n), _model_bytes(r['model'], 'q', n)
    rep = replay_duplicates_once(p, q)
    rep['contents'] = [p.hex(), q.hex()]
    out = _finish(r, rep, cex={'args': [repr(p), repr(q)], 'kwargs': {}, 'raw': '(%r, %r)' % (p, q)})
    if rep['outcome'] == 'holds':
        # the solver's colliding pair is the adversarial input; the real tool handled it correctly
        out['verdict'] = 'confirmed'
        out['extra']['collision_pair_handled_correctly'] = rep
        out.pop('cex', None)
        out.pop('replay', None)
    return out


def replay_duplicates_once(p, q):
    """build a tree with two files of contents p, q; run the real tool with -duplicates-once; read both back"""
    import shutil
    import tempfile
    d = tempfile.mkdtemp(prefix='vf_c20_')
    try:
        src = os.path.join(d, 'src')
        os.mkdir(src)
        open(os.path.join(src, 'aaa.bin'), 'wb').write(p)
        open(os.path.join(src, 'bbb.bin'), 'wb').write(q)
        img = os.path.join(d, 'out.iso')
        py = os.environ.get('VF_PY_REAL', '/venv/bin/python')
        env = dict(os.environ, PYTHONPATH=REPO)
        pr = subprocess.run([py, os.path.join(REPO, 'tools', 'pycdlib-genisoimage'), '-scan-for-duplicates', '-o', img, src],
                            stdout=subprocess.PIPE, stderr=subprocess.STDOUT, env=env, timeout=120)
        if pr.returncode != 0 or not os.path.exists(img):
            return {'outcome': 'error', 'detail': pr.stdout.decode('utf-8', 'replace')[-500:]}
        code = ("import sys, io, json; sys.path.insert(0, %r); import pycdlib\n"
                "iso = pycdlib.PyCdlib(); iso.open(%r)\n"
                "res = {}\n"
                "for c in iso.list_children(iso_path='/'):\n"
                "    if c.is_file():\n"
                "        o = io.BytesIO(); iso.get_file_from_iso_fp(o, iso_path='/' + c.file_identifier().decode()); res[c.file_identifier().decode()] = o.getvalue().hex()\n"
                "print('OUT ' + json.dumps(res))\n") % (REPO, img)
        pr = subprocess.run([py, '-c', code], stdout=subprocess.PIPE, stderr=subprocess.STDOUT, timeout=120)
        line = [l for l in pr.stdout.decode().splitlines() if l.startswith('OUT ')]
        if not line:
            return {'outcome': 'error', 'detail': pr.stdout.decode('utf-8', 'replace')[-500:]}
        res = json.loads(line[0][4:])
        got = sorted(res.values())
        want = sorted([p.hex(), q.hex()])
        return {'outcome': 'holds' if got == want else 'violates', 'read_back': res}
    finally:
        shutil.rmtree(d, ignore_errors=True)
