"""Run ONE obligation in this process and print one JSON line `RESULT {...}`.

usage: python3-vt -m vf.worker '<json spec>'
spec: {engine: chx|py, module, func, params, cond_timeout, path_timeout, twin}
 chx -- CrossHair (symbolic execution + z3) on module.func (PEP316 contract in the docstring)
 py  -- module.func(params) is itself a solver-driving routine (E2/E3 engines) returning a result dict
"""
import importlib
import json
import os
import re
import sys
import time
import traceback


def _balanced(s, start):
    depth = 0
    instr = None
    i = start
    while i < len(s):
        c = s[i]
        if instr:
            if c == '\\':
                i += 1
            elif c == instr:
                instr = None
        elif c in '\'"':
            instr = c
        elif c in '([{':
            depth += 1
        elif c in ')]}':
            depth -= 1
            if depth == 0:
                return i
        i += 1
    return -1


def parse_cex(msg, fname):
    """extract the concrete arguments from CrossHair's 'when calling f(a, b)' text"""
    k = msg.find('when calling ' + fname + '(')
    if k < 0:
        return None
    st = k + len('when calling ' + fname)
    en = _balanced(msg, st)
    if en < 0:
        return None
    argsrc = msg[st:en + 1]
    try:
        a, kw = eval('(lambda *a, **k: (a, k))' + argsrc, {'__builtins__': {}, 'bytearray': bytearray, 'float': float})
    except Exception:
        return {'raw': argsrc}
    return {'args': [repr(x) for x in a], 'kwargs': {k: repr(v) for k, v in kw.items()}, 'raw': argsrc}


def run_chx(spec):
    import z3
    stats = {'checks': 0, 'secs': 0.0}
    _orig = z3.Solver.check

    def _chk(self, *a):
        t = time.perf_counter()
        try:
            return _orig(self, *a)
        finally:
            stats['checks'] += 1
            stats['secs'] += time.perf_counter() - t
    z3.Solver.check = _chk
    from crosshair.core_and_libs import analyze_function, run_checkables
    from crosshair.options import AnalysisOptionSet, AnalysisKind
    import crosshair.statespace as ss
    paths = [0]
    _oi = ss.StateSpace.__init__

    def _init(self, *a, **k):
        paths[0] += 1
        return _oi(self, *a, **k)
    ss.StateSpace.__init__ = _init

    forkprof = {}
    if os.environ.get('VF_FORKPROF'):
        import traceback as _tb
        _cp = ss.StateSpace.choose_possible

        def _choose(self, *a, **k):
            st = _tb.extract_stack(limit=150)
            loc = '?'
            for fr in reversed(st):
                if '/repo/' in fr.filename or '/verif/vf/' in fr.filename and 'worker' not in fr.filename:
                    loc = '%s:%d %s' % (fr.filename.split('/')[-1], fr.lineno, fr.name)
                    break
            r = _cp(self, *a, **k)
            key = '%s -> %s' % (loc, bool(r))
            forkprof[key] = forkprof.get(key, 0) + 1
            return r
        ss.StateSpace.choose_possible = _choose
    mod = importlib.import_module(spec['module'])
    fn = getattr(mod, spec['func'])
    opts = AnalysisOptionSet(per_condition_timeout=float(spec.get('cond_timeout', 120)),
                             per_path_timeout=float(spec.get('path_timeout', 30)),
                             report_all=True, analysis_kind=[AnalysisKind.PEP316],
                             max_uninteresting_iterations=sys.maxsize)
    msgs = list(run_checkables(analyze_function(fn, opts)))
    out = {'paths': paths[0], 'solver_calls': stats['checks'], 'solver_s': round(stats['secs'], 3), 'messages': []}
    verdict = None
    cex = None
    for m in msgs:
        st = m.state.name
        out['messages'].append({'state': st, 'text': m.message[:600]})
        if st in ('POST_FAIL', 'EXEC_ERR', 'POST_ERR'):
            verdict = 'refuted'
            cex = parse_cex(m.message, spec['func'])
            out['cex_kind'] = st
            out['cex_text'] = m.message[:2000]
        elif st == 'CONFIRMED' and verdict is None:
            verdict = 'confirmed'
        elif st in ('CANNOT_CONFIRM', 'PRE_UNSAT', 'SYNTAX_ERR', 'IMPORT_ERR') and verdict != 'refuted':
            verdict = 'inconclusive'
            out['why'] = st
    if not msgs:
        verdict = 'inconclusive'
        out['why'] = 'no message (no contract found?)'
    out['verdict'] = verdict
    out['cex'] = cex
    if forkprof:
        out['forkprof'] = sorted(forkprof.items(), key=lambda kv: -kv[1])[:40]
    return out


def run_py(spec):
    mod = importlib.import_module(spec['module'])
    fn = getattr(mod, spec['func'])
    return fn(spec.get('params', {}))


def main():
    spec = json.loads(sys.argv[1])
    os.environ['VF_PARAMS'] = json.dumps(spec.get('params', {}))
    os.environ['VF_TWIN'] = '1' if spec.get('twin') else '0'
    os.environ['VF_MODE'] = 'sym'
    t0 = time.perf_counter()
    try:
        if spec['engine'] == 'chx':
            res = run_chx(spec)
        else:
            res = run_py(spec)
    except BaseException as e:  # noqa
        res = {'verdict': 'inconclusive', 'why': 'worker exception: %s: %s' % (type(e).__name__, e),
               'trace': traceback.format_exc()[-1500:]}
    res['wall_s'] = round(time.perf_counter() - t0, 2)
    sys.stdout.write('\nRESULT ' + json.dumps(res) + '\n')
    sys.stdout.flush()


if __name__ == '__main__':
    main()
