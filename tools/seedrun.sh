#!/bin/sh
# usage: seedrun.sh <SEEDDIR (patch.diff)> <PROPERTY> [tier]  -- runs ./check PROPERTY against a scratch worktree of /repo HEAD with the
# seeded patch applied (VF_REPO), writing evidence/replays to a scratch directory (VF_OUT); /repo and /verif/evidence are untouched.
SRC="$1"; PID="$2"; TIER="${3:-quick}"; TAG=$(basename "$SRC")_$PID
WT="/tmp/seedrun/$TAG"; OUT="/tmp/seedrun/out_$TAG"
mkdir -p /tmp/seedrun; git -C /repo worktree remove --force "$WT" 2>/dev/null; rm -rf "$OUT"
git -C /repo worktree add -q --detach "$WT" HEAD || exit 2
(cd "$WT" && git apply "$SRC/patch.diff") || { echo "patch does not apply"; git -C /repo worktree remove --force "$WT"; exit 2; }
cd /verif
VF_REPO="$WT" VF_OUT="$OUT" ./check "$PID" --tier "$TIER" > "/tmp/seedrun/$TAG.log" 2>&1; RC=$?
git -C /repo worktree remove --force "$WT"
echo "seed=$(basename $SRC) check=$PID tier=$TIER rc=$RC violations=$(grep -c '^VIOLATION' /tmp/seedrun/$TAG.log) inconclusive=$(grep -c '^INCONCLUSIVE' /tmp/seedrun/$TAG.log)"
grep '^VIOLATION' "/tmp/seedrun/$TAG.log" | head -3
