#!/usr/bin/env python3
"""Run the repository's pinned test-suite and compare with /root/.vp/BASELINE.json (stable_pass must still pass)."""
import json, subprocess, sys, tempfile, os, xml.etree.ElementTree as ET
base = json.load(open('/root/.vp/BASELINE.json'))
want = set(base['stable_pass'])
with tempfile.TemporaryDirectory() as d:
    x = os.path.join(d, 'j.xml')
    subprocess.call(['/venv/bin/python', '-m', 'pytest', '-q', '-p', 'no:cacheprovider', '--timeout=900',
                     '--continue-on-collection-errors', '--junitxml=' + x, '-n', '0'] if False else
                    ['/venv/bin/python', '-m', 'pytest', '-q', '-p', 'no:cacheprovider', '--timeout=900',
                     '--continue-on-collection-errors', '--junitxml=' + x], cwd=sys.argv[1] if len(sys.argv) > 1 else '/repo',
                    stdout=subprocess.DEVNULL, stderr=subprocess.DEVNULL)
    passed = set()
    for tc in ET.parse(x).getroot().iter('testcase'):
        if not any(ch.tag in ('failure', 'error', 'skipped') for ch in tc):
            passed.add('%s::%s' % (tc.get('classname'), tc.get('name')))
missing = sorted(want - passed)
print('baseline stable_pass=%d, passed now=%d, regressions=%d' % (len(want), len(passed), len(missing)))
for m in missing[:20]:
    print('  REGRESSION', m)
sys.exit(1 if missing else 0)
