#!/bin/sh
# runs every registered quick (or thorough) check once, sequentially, and prints rc + wall time per property
TIER="${1:-quick}"
cd "$(dirname "$0")/.."
for p in ${PROPS:-C01 C02 C03 C04 C05 C06 C07 C08 C09 C10 C11 C12 C13 C14 C15 C16 C17 C18 C19 C20}; do
  s=$(date +%s)
  ./check $p --tier $TIER > /tmp/vt/run_${TIER}_$p.log 2>&1; rc=$?
  e=$(date +%s)
  echo "$p rc=$rc wall=$((e-s))s violations=$(grep -c '^VIOLATION' /tmp/vt/run_${TIER}_$p.log) known=$(grep -c '^KNOWN-FINDING' /tmp/vt/run_${TIER}_$p.log) inconclusive=$(grep -c '^INCONCLUSIVE' /tmp/vt/run_${TIER}_$p.log)"
done
