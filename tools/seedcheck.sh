#!/bin/sh
# usage: seedcheck.sh <ID> <dir with patch.diff demo.py>   -- confirms a seeded change in a scratch worktree of /repo HEAD:
#   patch applies, baseline has no regressions with it, demo fails with it and passes without it.  Nothing in /repo is touched.
ID="$1"; SRC="$2"; WT="/tmp/seedchk/$ID"
mkdir -p /tmp/seedchk; git -C /repo worktree remove --force "$WT" 2>/dev/null
git -C /repo worktree add -q --detach "$WT" HEAD || exit 2
cd "$WT"
/venv/bin/python "$SRC/demo.py" "$WT" >/tmp/seedchk/$ID.demo0.log 2>&1; D0=$?
if ! git apply "$SRC/patch.diff"; then echo "$ID patch does not apply"; git -C /repo worktree remove --force "$WT"; exit 2; fi
/venv/bin/python "$SRC/demo.py" "$WT" >/tmp/seedchk/$ID.demo1.log 2>&1; D1=$?
B=$(python3 /verif/tools/baseline.py "$WT" | head -1)
cd /; git -C /repo worktree remove --force "$WT"
echo "$ID demo_unchanged_rc=$D0 demo_patched_rc=$D1 $B"
