#!/bin/sh
# Offline setup: nothing is built or fetched.  The checks run the pre-installed tooling interpreter
# (/opt/veriftools/pyvenv: crosshair-tool, z3-solver) with PYTHONPATH=/repo, and /venv/bin/python for replays.
set -e
/opt/veriftools/pyvenv/bin/python -c "import crosshair, z3; print('crosshair', crosshair.__version__, 'z3', z3.get_version_string())"
/venv/bin/python -c "import sys; sys.path.insert(0, '/repo'); import pycdlib; print('pycdlib importable under', sys.version.split()[0])"
mkdir -p "$(dirname "$0")/evidence" "$(dirname "$0")/replays"
